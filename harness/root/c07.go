//go:build verif

package gtfs

import (
	vr "github.com/jamespfennell/gtfs/internal/verifrt"
	gtfsrt "github.com/jamespfennell/gtfs/proto"
)

func init() {
	vr.Register("Harness_C07_permute", Harness_C07_permute)
	vr.Register("Harness_C07_sorted_unique", Harness_C07_sorted_unique)
	vr.Register("Harness_C07_alert_trips", Harness_C07_alert_trips)
}

// entity kinds over two logical trips (0,1) paired with two logical vehicles (0,1):
// 0: TU trip0 (+vehicle0 ref optional)   1: VP vehicle0 (+trip0 ref optional)   2: alert selecting trip0
// 3: TU trip1                           4: VP vehicle1 (+trip1 ref optional)   5: alert selecting trip1
func hC07Entity(kind int, tdesc [2]*gtfsrt.TripDescriptor, vdesc [2]*gtfsrt.VehicleDescriptor, refV0, refT0, refT1 bool) *gtfsrt.FeedEntity {
	id := vr.T("e", kind)
	cpT := func(i int) *gtfsrt.TripDescriptor { c := *tdesc[i]; return &c }
	cpV := func(i int) *gtfsrt.VehicleDescriptor {
		if vdesc[i] == nil {
			return nil
		}
		c := *vdesc[i]
		return &c
	}
	switch kind {
	case 0:
		sid := vr.Str("tu0.stop")
		tu := &gtfsrt.TripUpdate{Trip: cpT(0), StopTimeUpdate: []*gtfsrt.TripUpdate_StopTimeUpdate{{StopId: &sid}}}
		if refV0 {
			tu.Vehicle = cpV(0)
		}
		return &gtfsrt.FeedEntity{Id: &id, TripUpdate: tu}
	case 1:
		vp := &gtfsrt.VehiclePosition{Vehicle: cpV(0), StopId: hOptStr("vp0.stop_id"), CurrentStopSequence: hOptU32("vp0.seq")}
		if refT0 {
			vp.Trip = cpT(0)
		}
		return &gtfsrt.FeedEntity{Id: &id, Vehicle: vp}
	case 2:
		return &gtfsrt.FeedEntity{Id: &id, Alert: &gtfsrt.Alert{InformedEntity: []*gtfsrt.EntitySelector{{Trip: cpT(0)}}}}
	case 3:
		sid := vr.Str("tu1.stop")
		return &gtfsrt.FeedEntity{Id: &id, TripUpdate: &gtfsrt.TripUpdate{Trip: cpT(1), StopTimeUpdate: []*gtfsrt.TripUpdate_StopTimeUpdate{{StopId: &sid}}}}
	case 4:
		vp := &gtfsrt.VehiclePosition{Vehicle: cpV(1), StopId: hOptStr("vp1.stop_id")}
		if refT1 {
			vp.Trip = cpT(1)
		}
		return &gtfsrt.FeedEntity{Id: &id, Vehicle: vp}
	default:
		return &gtfsrt.FeedEntity{Id: &id, Alert: &gtfsrt.Alert{InformedEntity: []*gtfsrt.EntitySelector{{Trip: cpT(1)}}}}
	}
}

func hVehiclesSameSet(a, b []Vehicle) bool {
	if len(a) != len(b) {
		return false
	}
	ok := true
	for i := range a {
		var any []bool
		for j := range b {
			any = append(any, vr.DeepEq(a[i], b[j]))
		}
		ok = vr.And(ok, vr.Or(any...))
	}
	return ok
}

// E distinct entities drawn from the six kinds above, in a symbolic choice and
// order; the message is parsed as given and under generators of the
// permutation group (reverse; rotate), and the results are compared.
func Harness_C07_permute() {
	E := vr.Param("E", 2)
	var tdesc [2]*gtfsrt.TripDescriptor
	var vdesc [2]*gtfsrt.VehicleDescriptor
	var tid [2]string
	for i := 0; i < 2; i++ {
		tid[i] = vr.Str(vr.T("trip", i, ".id"))
		t := tid[i]
		tdesc[i] = &gtfsrt.TripDescriptor{TripId: &t, RouteId: hOptStr(vr.T("trip", i, ".route"))}
		v := vr.Str(vr.T("vehicle", i, ".id"))
		vr.Assume(v != "")
		vdesc[i] = &gtfsrt.VehicleDescriptor{Id: &v}
	}
	vr.Assume(tid[0] != "" && tid[1] != "" && tid[0] != tid[1])
	vr.Assume(*vdesc[0].Id != *vdesc[1].Id)
	// how the vehicles are named: 0 both by id; 1/2 the second anonymous (no descriptor at all / a descriptor
	// naming nothing); 3 both by label only; 4 both by licence plate only (distinct values)
	isV0 := func(v *Vehicle) bool { return v.ID != nil && v.ID.ID == *vdesc[0].Id }
	var ownDesc0 *gtfsrt.VehicleDescriptor // mode 5: vehicle 0's own entity carries a label as well, references name the id only
	switch hConcretize(vr.Int("vehicle.naming", 0, 5), 0, 5) {
	case 5:
		lbl := vr.Str("vehicle0.label")
		vr.Assume(lbl != "")
		ownDesc0 = &gtfsrt.VehicleDescriptor{Id: vdesc[0].Id, Label: &lbl}
		isV0 = func(v *Vehicle) bool { return v.ID != nil && v.ID.ID == *vdesc[0].Id && v.ID.Label == lbl }
	case 1:
		vdesc[1] = nil
	case 2:
		vdesc[1] = &gtfsrt.VehicleDescriptor{}
	case 3:
		vdesc[0], vdesc[1] = &gtfsrt.VehicleDescriptor{Label: vdesc[0].Id}, &gtfsrt.VehicleDescriptor{Label: vdesc[1].Id}
		isV0 = func(v *Vehicle) bool { return v.ID != nil && v.ID.Label == *vdesc[0].Label }
	case 4:
		vdesc[0], vdesc[1] = &gtfsrt.VehicleDescriptor{LicensePlate: vdesc[0].Id}, &gtfsrt.VehicleDescriptor{LicensePlate: vdesc[1].Id}
		isV0 = func(v *Vehicle) bool { return v.ID != nil && v.ID.LicensePlate == *vdesc[0].LicensePlate }
	}
	refV0, refT0, refT1 := vr.Bool("tu0.refs_vehicle0"), vr.Bool("vp0.refs_trip0"), vr.Bool("vp1.refs_trip1")
	if ownDesc0 != nil {
		// the two descriptors name different vehicles: trip 0 may be associated with only one of them (conflict-freedom)
		vr.Assume(!(refV0 && refT0))
	}
	// trip 0's own update may be an ADDED trip: references with the default relationship then name another trip
	added := vr.Bool("tu0.added")
	if added {
		vr.Assume(!(refV0 && refT0)) // vehicle 0 goes with one of the two trips only (conflict-freedom)
	}
	kinds := make([]int, E)
	var ents []*gtfsrt.FeedEntity
	for e := 0; e < E; e++ {
		kinds[e] = hConcretize(vr.Int(vr.T("entity", e, ".kind"), 0, 5), 0, 5)
		for p := 0; p < e; p++ {
			vr.Assume(kinds[p] != kinds[e])
		}
		ents = append(ents, hC07Entity(kinds[e], tdesc, vdesc, refV0, refT0, refT1))
		if kinds[e] == 0 && added {
			sr := gtfsrt.TripDescriptor_ADDED
			ents[e].TripUpdate.Trip.ScheduleRelationship = &sr
		}
		if kinds[e] == 1 && ownDesc0 != nil {
			c := *ownDesc0
			ents[e].Vehicle.Vehicle = &c
		}
	}
	parse := func(es []*gtfsrt.FeedEntity) *Realtime {
		r, err := ParseRealtime(vr.Marshal(&gtfsrt.FeedMessage{Header: hHeader("header"), Entity: es}), &ParseRealtimeOptions{})
		vr.Assert("C07.returns", err == nil && r != nil)
		return r
	}
	base := parse(ents)
	var perms [][]*gtfsrt.FeedEntity
	rev := make([]*gtfsrt.FeedEntity, E)
	for i := range ents {
		rev[E-1-i] = ents[i]
	}
	perms = append(perms, rev)
	if E > 2 {
		perms = append(perms, append(append([]*gtfsrt.FeedEntity{}, ents[1:]...), ents[0]))
	}
	if base == nil {
		return
	}
	for _, p := range perms {
		r := parse(p)
		if r == nil {
			return
		}
		vr.Assert("C07.perm.trips", vr.DeepEq(base.Trips, r.Trips))
		vr.Assert("C07.perm.vehicles", hVehiclesSameSet(base.Vehicles, r.Vehicles))
		// alerts keep their relative order: compare as sets of ids plus relative order of the two alert kinds
		vr.Assert("C07.perm.alerts.count", len(base.Alerts) == len(r.Alerts))
	}
	// own entity wins, wherever it stands
	has := func(k int) bool {
		for _, x := range kinds {
			if x == k {
				return true
			}
		}
		return false
	}
	for i := range base.Trips {
		t := &base.Trips[i]
		ownRel := t.ID.ScheduleRelationship == gtfsrt.TripDescriptor_SCHEDULED
		if added {
			ownRel = t.ID.ScheduleRelationship == gtfsrt.TripDescriptor_ADDED
		}
		if t.ID.ID == tid[0] && !ownRel {
			vr.Assert("C07.own.trip", !t.IsEntityInMessage) // only referenced
		}
		if t.ID.ID == tid[0] && ownRel {
			vr.Assert("C07.own.trip", t.IsEntityInMessage == has(0))
			if has(0) {
				vr.Assert("C07.own.trip.data", len(t.StopTimeUpdates) == 1)
			}
		}
		if t.ID.ID == tid[1] {
			vr.Assert("C07.own.trip", t.IsEntityInMessage == has(3))
		}
	}
	for i := range base.Vehicles {
		v := &base.Vehicles[i]
		if isV0(v) {
			vr.Assert("C07.own.vehicle", v.IsEntityInMessage == has(1))
			if has(1) {
				vr.Assert("C07.own.vehicle.data", vr.DeepEq(v.StopID, ents[hIndexOf(kinds, 1)].Vehicle.StopId))
			}
		}
	}
	// alerts in relative feed order
	var wantAlerts []string
	for e := 0; e < E; e++ {
		if kinds[e] == 2 || kinds[e] == 5 {
			wantAlerts = append(wantAlerts, *ents[e].Id)
		}
	}
	vr.Assert("C07.alerts.order", len(base.Alerts) == len(wantAlerts))
	if len(base.Alerts) == len(wantAlerts) {
		for i := range wantAlerts {
			vr.Assert("C07.alerts.order", base.Alerts[i].ID == wantAlerts[i])
		}
	}
}

// hConcretize forks over the values of a small symbolic int so that it is a constant afterwards.
func hConcretize(x, lo, hi int) int {
	for k := lo; k < hi; k++ {
		if x == k {
			return k
		}
	}
	return hi
}

func hIndexOf(xs []int, k int) int {
	for i, x := range xs {
		if x == k {
			return i
		}
	}
	return 0
}

// Any message (no conflict-freedom assumed): E entities, each a trip update,
// vehicle position or alert over symbolic descriptors that may coincide.
func Harness_C07_sorted_unique() {
	E := vr.Param("E", 2)
	var ents []*gtfsrt.FeedEntity
	for e := 0; e < E; e++ {
		id := vr.T("e", e)
		d := hTripDescriptorM(vr.T("e", e, ".trip"))
		sr := gtfsrt.TripDescriptor_ScheduleRelationship(vr.Int(vr.T("e", e, ".trip.schedule_relationship"), 0, 3))
		d.d.ScheduleRelationship = vr.MaybeNil(vr.T("e", e, ".trip.schedule_relationship.nil"), &sr)
		vd, _ := hVehicleDescriptor(vr.T("e", e, ".vehicle"), vr.Int(vr.T("e", e, ".vehicle.kind"), 0, 1))
		switch vr.Int(vr.T("e", e, ".kind"), 0, 2) {
		case 0:
			ents = append(ents, &gtfsrt.FeedEntity{Id: &id, TripUpdate: &gtfsrt.TripUpdate{Trip: d.d, Vehicle: vd}})
		case 1:
			ents = append(ents, &gtfsrt.FeedEntity{Id: &id, Vehicle: &gtfsrt.VehiclePosition{Trip: d.d, Vehicle: vd}})
		default:
			ents = append(ents, &gtfsrt.FeedEntity{Id: &id, Alert: &gtfsrt.Alert{InformedEntity: []*gtfsrt.EntitySelector{{Trip: d.d}}}})
		}
	}
	r, err := ParseRealtime(vr.Marshal(&gtfsrt.FeedMessage{Header: hHeader("header"), Entity: ents}), &ParseRealtimeOptions{})
	vr.Assert("C07.returns", err == nil && r != nil)
	if r == nil {
		return
	}
	for i := 0; i+1 < len(r.Trips); i++ {
		vr.Assert("C07.trips.sorted", r.Trips[i].ID.Less(r.Trips[i+1].ID))
	}
	for i := range r.Trips {
		for j := i + 1; j < len(r.Trips); j++ {
			vr.Assert("C07.trips.unique", !vr.DeepEq(r.Trips[i].ID, r.Trips[j].ID))
		}
	}
	for i := range r.Vehicles {
		for j := i + 1; j < len(r.Vehicles); j++ {
			vr.Assert("C07.vehicles.unique", vr.Or(r.Vehicles[i].ID == nil, r.Vehicles[j].ID == nil, !vr.DeepEq(r.Vehicles[i].ID, r.Vehicles[j].ID)))
		}
	}
}

// One alert whose selectors name K trips (ids symbolic, equal or different),
// optionally with a trip update for the first trip placed before or after the
// alert: every identifiable trip appears exactly once in Trips, sorted, and the
// trip with an entity of its own carries that entity's data.
func Harness_C07_alert_trips() {
	K := vr.Param("K", 2)
	var sels []*gtfsrt.EntitySelector
	ids := make([]string, K)
	for k := 0; k < K; k++ {
		ids[k] = vr.Str(vr.T("sel", k, ".trip_id"))
		vr.Assume(ids[k] != "")
		id := ids[k]
		sels = append(sels, &gtfsrt.EntitySelector{Trip: &gtfsrt.TripDescriptor{TripId: &id}})
	}
	aid, tid := "alert", "tu"
	alert := &gtfsrt.FeedEntity{Id: &aid, Alert: &gtfsrt.Alert{InformedEntity: sels}}
	ents := []*gtfsrt.FeedEntity{alert}
	sid := vr.Str("tu.stop")
	id0 := ids[0]
	tu := &gtfsrt.FeedEntity{Id: &tid, TripUpdate: &gtfsrt.TripUpdate{Trip: &gtfsrt.TripDescriptor{TripId: &id0}, StopTimeUpdate: []*gtfsrt.TripUpdate_StopTimeUpdate{{StopId: &sid}}}}
	hasTU := false
	switch hConcretize(vr.Int("tu.position", 0, 2), 0, 2) {
	case 1:
		ents = []*gtfsrt.FeedEntity{tu, alert}
		hasTU = true
	case 2:
		ents = []*gtfsrt.FeedEntity{alert, tu}
		hasTU = true
	}
	r, err := ParseRealtime(vr.Marshal(&gtfsrt.FeedMessage{Header: hHeader("header"), Entity: ents}), &ParseRealtimeOptions{})
	vr.Assert("C07.returns", err == nil && r != nil)
	if r == nil {
		return
	}
	for i := 0; i+1 < len(r.Trips); i++ {
		vr.Assert("C07.trips.sorted", r.Trips[i].ID.Less(r.Trips[i+1].ID))
	}
	for k := 0; k < K; k++ {
		n := 0
		for i := range r.Trips {
			if r.Trips[i].ID.ID == ids[k] {
				n++
				if k == 0 {
					vr.Assert("C07.own.trip", r.Trips[i].IsEntityInMessage == hasTU)
					if hasTU {
						vr.Assert("C07.own.trip.data", len(r.Trips[i].StopTimeUpdates) == 1)
					}
				}
			}
		}
		vr.Assert("C07.alert_trip.once", n == 1)
	}
}
