//go:build verif

package gtfs

import (
	"regexp"
	"time"

	vr "github.com/jamespfennell/gtfs/internal/verifrt"
	gtfsrt "github.com/jamespfennell/gtfs/proto"
)

// ---- symbolic GTFS-realtime message builders (shared by the realtime harnesses)

// The documented wire formats of start_time and start_date (the harness's own
// copies: checks must not depend on unexported identifiers of the repository).
var hStartTimeRe = regexp.MustCompile(`^([0-9]{2}):([0-9]{2}):([0-9]{2})$`)
var hStartDateRe = regexp.MustCompile(`^([0-9]{4})([0-9]{2})([0-9]{2})$`)

func hOptStr(tag string) *string {
	s := vr.Str(tag)
	return vr.MaybeNil(tag+".nil", &s)
}
func hOptU32(tag string) *uint32 {
	v := vr.U32(tag)
	return vr.MaybeNil(tag+".nil", &v)
}
func hOptI32(tag string) *int32 {
	v := vr.I32(tag)
	return vr.MaybeNil(tag+".nil", &v)
}
func hOptI64(tag string) *int64 {
	v := vr.I64(tag)
	return vr.MaybeNil(tag+".nil", &v)
}
func hOptU64(tag string) *uint64 {
	v := vr.U64(tag)
	return vr.MaybeNil(tag+".nil", &v)
}
func hOptF32(tag string) *float32 {
	v := vr.F32(tag)
	return vr.MaybeNil(tag+".nil", &v)
}
func hOptF64(tag string) *float64 {
	v := vr.F64(tag)
	return vr.MaybeNil(tag+".nil", &v)
}

// hZone returns the timezone option selected by the harness parameter ZONE
// and the zone results are expected in.
func hZone() (opt *time.Location, want *time.Location) {
	switch vr.Param("ZONE", 0) {
	case 1:
		return time.UTC, time.UTC
	case 2:
		z := time.FixedZone("plus0530", 5*3600+1800)
		return z, z
	case 3:
		z, err := time.LoadLocation("America/New_York")
		vr.Assume(err == nil)
		return z, z
	case 4:
		z, err := time.LoadLocation("Pacific/Apia")
		vr.Assume(err == nil)
		return z, z
	}
	return nil, time.UTC
}

type hDesc struct {
	d         *gtfsrt.TripDescriptor
	wantID    TripID
	startKind int
	dateKind  int
}

// hTripDescriptor builds a trip descriptor with every optional field
// independently present or absent, and the TripID the statement expects.
// timeKinds/dateKinds bound the start_time/start_date shapes explored:
// 0 absent, 1 well-formed digits, 2 arbitrary non-matching text.
func hTripDescriptor(tag string, zone *time.Location, kinds int) hDesc {
	d := &gtfsrt.TripDescriptor{
		TripId:  hOptStr(tag + ".trip_id"),
		RouteId: hOptStr(tag + ".route_id"),
	}
	want := TripID{ID: d.GetTripId(), RouteID: d.GetRouteId()}
	// direction: absent, 0 or 1
	switch vr.Int(tag+".direction.kind", 0, 2) {
	case 1:
		d.DirectionId = vr.P(uint32(0))
		want.DirectionID = DirectionID_False
	case 2:
		d.DirectionId = vr.P(uint32(1))
		want.DirectionID = DirectionID_True
	}
	sk := vr.Int(tag+".start_time.kind", 0, kinds)
	switch sk {
	case 1:
		hh, mm, ss := vr.Chars(tag+".start_time.hh", 2, "digit"), vr.Chars(tag+".start_time.mm", 2, "digit"), vr.Chars(tag+".start_time.ss", 2, "digit")
		s := hh + ":" + mm + ":" + ss
		d.StartTime = &s
		secs := (hDig2(hh)*60+hDig2(mm))*60 + hDig2(ss)
		want.HasStartTime = true
		want.StartTime = time.Duration(secs) * time.Second
	case 2:
		s := vr.Str(tag + ".start_time.text")
		vr.Assume(!hStartTimeRe.MatchString(s))
		d.StartTime = &s
	}
	dk := vr.Int(tag+".start_date.kind", 0, kinds)
	switch dk {
	case 1:
		s := vr.Chars(tag+".start_date.digits", 8, "digit")
		d.StartDate = &s
		y := hDig2(s[0:2])*100 + hDig2(s[2:4])
		want.HasStartDate = true
		want.StartDate = time.Date(y, time.Month(hDig2(s[4:6])), hDig2(s[6:8]), 0, 0, 0, 0, zone)
	case 2:
		s := vr.Str(tag + ".start_date.text")
		vr.Assume(!hStartDateRe.MatchString(s))
		d.StartDate = &s
	case 3: // concrete civil dates around daylight-saving transitions and date-line changes of the zones under test
		s := vr.OneOf(tag+".start_date.special", "20240310", "20241103", "20240331", "20241027", "20111230", "20111231", "20240229")
		d.StartDate = &s
		want.HasStartDate = true
		want.StartDate = time.Date(hAtoi(s[0:4]), time.Month(hAtoi(s[4:6])), hAtoi(s[6:8]), 0, 0, 0, 0, zone)
	}
	if !vr.Bool(tag + ".schedule_relationship.nil") {
		sr := gtfsrt.TripDescriptor_ScheduleRelationship(vr.I32(tag + ".schedule_relationship"))
		d.ScheduleRelationship = &sr
		want.ScheduleRelationship = sr
	}
	return hDesc{d: d, wantID: want, startKind: sk, dateKind: dk}
}

func hDig2(s string) int { return int(s[0]-'0')*10 + int(s[1]-'0') }

// hVehicleDescriptor: kind 0 absent, 1 id only, 2 label only, 3 licence plate only, 4 all three
func hVehicleDescriptor(tag string, kind int) (*gtfsrt.VehicleDescriptor, *VehicleID) {
	switch kind {
	case 1:
		id := vr.Str(tag + ".id")
		vr.Assume(id != "")
		return &gtfsrt.VehicleDescriptor{Id: &id}, &VehicleID{ID: id}
	case 2:
		l := vr.Str(tag + ".label")
		vr.Assume(l != "")
		return &gtfsrt.VehicleDescriptor{Label: &l}, &VehicleID{Label: l}
	case 3:
		l := vr.Str(tag + ".license_plate")
		vr.Assume(l != "")
		return &gtfsrt.VehicleDescriptor{LicensePlate: &l}, &VehicleID{LicensePlate: l}
	case 4:
		id, l, p := vr.Str(tag+".id"), vr.Str(tag+".label"), vr.Str(tag+".license_plate")
		vr.Assume(vr.Or(id != "", l != "", p != ""))
		return &gtfsrt.VehicleDescriptor{Id: &id, Label: &l, LicensePlate: &p}, &VehicleID{ID: id, Label: l, LicensePlate: p}
	}
	return nil, nil
}

func hStopTimeEvent(tag string) *gtfsrt.TripUpdate_StopTimeEvent {
	ev := &gtfsrt.TripUpdate_StopTimeEvent{
		Time:        hOptI64(tag + ".time"),
		Delay:       hOptI32(tag + ".delay"),
		Uncertainty: hOptI32(tag + ".uncertainty"),
	}
	return vr.MaybeNil(tag+".nil", ev)
}

func hWantEvent(ev *gtfsrt.TripUpdate_StopTimeEvent, zone *time.Location) *StopTimeEvent {
	if ev == nil {
		return nil
	}
	out := &StopTimeEvent{Uncertainty: ev.Uncertainty}
	if ev.Time != nil {
		t := vr.Unix(*ev.Time, zone)
		out.Time = &t
	}
	if ev.Delay != nil {
		d := time.Duration(*ev.Delay) * time.Second
		out.Delay = &d
	}
	return out
}

func hStopTimeUpdate(tag string) *gtfsrt.TripUpdate_StopTimeUpdate {
	stu := &gtfsrt.TripUpdate_StopTimeUpdate{
		StopSequence: hOptU32(tag + ".stop_sequence"),
		StopId:       hOptStr(tag + ".stop_id"),
		Arrival:      hStopTimeEvent(tag + ".arrival"),
		Departure:    hStopTimeEvent(tag + ".departure"),
	}
	if !vr.Bool(tag + ".schedule_relationship.nil") {
		sr := gtfsrt.TripUpdate_StopTimeUpdate_ScheduleRelationship(vr.I32(tag + ".schedule_relationship"))
		stu.ScheduleRelationship = &sr
	}
	return stu
}

func hWantStopTimeUpdate(stu *gtfsrt.TripUpdate_StopTimeUpdate, zone *time.Location) StopTimeUpdate {
	w := StopTimeUpdate{
		StopSequence: stu.StopSequence,
		StopID:       stu.StopId,
		Arrival:      hWantEvent(stu.Arrival, zone),
		Departure:    hWantEvent(stu.Departure, zone),
	}
	if stu.ScheduleRelationship != nil {
		w.ScheduleRelationship = *stu.ScheduleRelationship
	} // else SCHEDULED (= 0), the proto2 default
	return w
}

func hHeader(tag string) *gtfsrt.FeedHeader {
	v := "2.0"
	return &gtfsrt.FeedHeader{GtfsRealtimeVersion: &v, Timestamp: hOptU64(tag + ".timestamp")}
}

func hFindTrip(trips []Trip, id TripID) (idx int, n int) {
	idx = -1
	for i := range trips {
		if vr.DeepEq(trips[i].ID, id) {
			idx = i
			n++
		}
	}
	return
}

// hTripDescriptorM is the non-forking variant: every optional field is a
// maybe-nil pointer and the expected TripID is built with conditional
// expressions, so presence patterns stay symbolic (UTC only: the zone is C02's subject).
func hTripDescriptorM(tag string) hDesc {
	d := &gtfsrt.TripDescriptor{
		TripId:  hOptStr(tag + ".trip_id"),
		RouteId: hOptStr(tag + ".route_id"),
	}
	want := TripID{ID: d.GetTripId(), RouteID: d.GetRouteId()}
	dir := uint32(vr.Int(tag+".direction_id", 0, 1))
	d.DirectionId = vr.MaybeNil(tag+".direction_id.nil", &dir)
	want.DirectionID = vr.Ite(d.DirectionId == nil, DirectionID_Unspecified, vr.Ite(dir == 0, DirectionID_False, DirectionID_True))
	hh, mm, ss := vr.Chars(tag+".start_time.hh", 2, "digit"), vr.Chars(tag+".start_time.mm", 2, "digit"), vr.Chars(tag+".start_time.ss", 2, "digit")
	st := hh + ":" + mm + ":" + ss
	d.StartTime = vr.MaybeNil(tag+".start_time.nil", &st)
	want.HasStartTime = d.StartTime != nil
	want.StartTime = vr.Ite(d.StartTime == nil, time.Duration(0), time.Duration((hDig2(hh)*60+hDig2(mm))*60+hDig2(ss))*time.Second)
	sd := vr.Chars(tag+".start_date.digits", 8, "digit")
	d.StartDate = vr.MaybeNil(tag+".start_date.nil", &sd)
	want.HasStartDate = d.StartDate != nil
	want.StartDate = vr.Ite(d.StartDate == nil, time.Time{}, time.Date(hDig2(sd[0:2])*100+hDig2(sd[2:4]), time.Month(hDig2(sd[4:6])), hDig2(sd[6:8]), 0, 0, 0, 0, time.UTC))
	return hDesc{d: d, wantID: want}
}
