//go:build verif

// Package verifrt is the harness runtime. This is the native flavour: inputs
// come from a replay file (a solver model), so that the very same harness the
// solver reasoned about runs against the real build.
package verifrt

import (
	"io"
	"archive/zip"
	"bytes"
	"encoding/csv"
	"encoding/json"
	"fmt"
	"math"
	"os"
	"path/filepath"
	"reflect"
	"runtime/debug"
	"strconv"
	"strings"
	"sync"
	"time"

	gtfsrt "github.com/jamespfennell/gtfs/proto"
	"google.golang.org/protobuf/proto"
)

type replayFile struct {
	Harness string            `json:"harness"`
	Params  map[string]int    `json:"params"`
	Values  map[string]string `json:"values"`
}

var rf replayFile
var registry = map[string]func(){}

type assumeFailed struct{}

func Register(name string, f func()) { registry[name] = f }

func Main() {
	if len(os.Args) < 2 {
		fmt.Println("usage: replay <file.json>")
		os.Exit(2)
	}
	b, err := os.ReadFile(os.Args[1])
	if err != nil {
		fmt.Println("ERROR", err)
		os.Exit(2)
	}
	if err := json.Unmarshal(b, &rf); err != nil {
		fmt.Println("ERROR", err)
		os.Exit(2)
	}
	f, ok := registry[rf.Harness]
	if !ok {
		fmt.Println("ERROR no such harness", rf.Harness)
		os.Exit(2)
	}
	defer func() {
		if r := recover(); r != nil {
			if _, ok := r.(assumeFailed); ok {
				fmt.Println("\nASSUME-FAILED")
				os.Exit(0)
			}
			fmt.Printf("\nPANIC %v\n", r)
			fmt.Println(string(debug.Stack()))
			os.Exit(0)
		}
	}()
	f()
	for _, d := range tempDirs {
		os.RemoveAll(d)
	}
	fmt.Println("\nDONE")
}

func val(tag string) (string, bool) { v, ok := rf.Values[tag]; return v, ok }

func Bool(tag string) bool { v, _ := val(tag); return v == "true" }

func intVal(tag string, def int64) int64 {
	v, ok := val(tag)
	if !ok {
		return def
	}
	n, err := strconv.ParseInt(v, 10, 64)
	if err != nil {
		u, err2 := strconv.ParseUint(v, 10, 64)
		if err2 != nil {
			return def
		}
		return int64(u)
	}
	return n
}

func Int(tag string, lo, hi int) int {
	if lo == hi {
		return lo
	}
	return int(intVal(tag, int64(lo)))
}
func I32(tag string) int32     { return int32(intVal(tag, 0)) }
func U32(tag string) uint32    { return uint32(intVal(tag, 0)) }
func I64(tag string) int64     { return intVal(tag, 0) }
func U64(tag string) uint64    { return uint64(intVal(tag, 0)) }
func F32(tag string) float32   { return math.Float32frombits(uint32(intVal(tag, 0))) }
func F64(tag string) float64   { return math.Float64frombits(uint64(intVal(tag, 0))) }
func Str(tag string) string    { v, _ := val(tag); return v }
func Symbolic() bool           { return false }
func MapOrder(mode string)     {}
func Cfg(key, val string)      {}
func Observe(id string, v any) { fmt.Printf("OBSERVE %s %v\n", id, v) }

var classDefault = map[string]byte{"digit": '0', "alnum": '0', "upper": 'A', "print": ' ', "any": 0, "time": '0', "num": '0'}

func Chars(tag string, n int, class string) string {
	b := make([]byte, n)
	for i := range b {
		b[i] = byte(intVal(fmt.Sprintf("%s[%d]", tag, i), int64(classDefault[class])))
	}
	return string(b)
}

func OneOf(tag string, opts ...string) string {
	if len(opts) == 1 {
		return opts[0]
	}
	k := int(intVal(tag, 0))
	if k < 0 || k >= len(opts) {
		k = 0
	}
	return opts[k]
}

func Assume(ok bool) {
	if !ok {
		panic(assumeFailed{})
	}
}

func Assert(id string, ok bool) {
	// the code under test may have printed without a trailing newline
	fmt.Println("\nREACHED", id)
	if !ok {
		fmt.Println("\nASSERT-FAILED", id)
	}
}

func MaybeNil[T any](tag string, p *T) *T {
	if p == nil || Bool(tag) {
		return nil
	}
	return p
}

func T(parts ...any) string {
	var sb strings.Builder
	for _, p := range parts {
		fmt.Fprint(&sb, p)
	}
	return sb.String()
}

func Param(name string, def int) int {
	if v, ok := rf.Params[name]; ok {
		return v
	}
	return def
}

func Unix(sec int64, loc *time.Location) time.Time { return time.Unix(sec, 0).In(loc) }

func And(xs ...bool) bool {
	for _, x := range xs {
		if !x {
			return false
		}
	}
	return true
}
func Or(xs ...bool) bool {
	for _, x := range xs {
		if x {
			return true
		}
	}
	return false
}
func Implies(a, b bool) bool { return !a || b }

// File is one member of a GTFS static archive given as a table.
type File struct {
	Name   string
	Header []string
	Rows   [][]string
	BOM    bool
	// QuotedHeader: every header cell is written inside double quotes (a legal CSV presentation)
	QuotedHeader bool
}

func writeCSVRecord(w io.Writer, rec []string, quoteAll bool) {
	var sb strings.Builder
	for i, f := range rec {
		if i > 0 {
			sb.WriteByte(',')
		}
		if quoteAll || strings.ContainsAny(f, ",\"\r\n") || (len(rec) == 1 && f == "") {
			sb.WriteByte('"')
			sb.WriteString(strings.ReplaceAll(f, "\"", "\"\""))
			sb.WriteByte('"')
		} else {
			sb.WriteString(f)
		}
	}
	sb.WriteByte('\n')
	io.WriteString(w, sb.String())
}

// Archive builds a real zip archive whose members are real CSV files.
func Archive(files []File) []byte {
	var buf bytes.Buffer
	zw := zip.NewWriter(&buf)
	for _, f := range files {
		w, err := zw.Create(f.Name)
		if err != nil {
			panic(err)
		}
		if f.BOM {
			w.Write([]byte{0xEF, 0xBB, 0xBF})
		}
		// minimal quoting (RFC 4180): a field is quoted only when it contains a comma, a quote, CR or LF,
		// so leading/trailing spaces reach the reader unquoted
		if f.Header != nil {
			writeCSVRecord(w, f.Header, f.QuotedHeader)
		}
		for _, r := range f.Rows {
			writeCSVRecord(w, r, false)
		}
	}
	if err := zw.Close(); err != nil {
		panic(err)
	}
	return buf.Bytes()
}

// DirEntry is one entry of a feed directory: Kind 0 readable file holding Msg, 1 unreadable (a sub-directory), 2 corrupt bytes, 3 empty file, 4 a symbolic link to a readable file holding Msg.
type DirEntry struct {
	Name string
	Kind int
	Msg  *gtfsrt.FeedMessage
}

// Dir creates a real temporary directory with the given entries.
func Dir(entries []DirEntry) string {
	base, err := os.MkdirTemp("", "verifdir")
	if err != nil {
		panic(err)
	}
	for _, e := range entries {
		p := filepath.Join(base, e.Name)
		switch e.Kind {
		case 1:
			err = os.Mkdir(p, 0o755)
		case 2:
			err = os.WriteFile(p, BadBytes(), 0o644)
		case 3:
			err = os.WriteFile(p, nil, 0o644)
		case 4: // a symbolic link to a readable file kept elsewhere
			var targets string
			targets, err = os.MkdirTemp("", "veriftargets")
			if err == nil {
				tempDirs = append(tempDirs, targets)
				target := filepath.Join(targets, "target")
				if err = os.WriteFile(target, Marshal(e.Msg), 0o644); err == nil {
					err = os.Symlink(target, p)
				}
			}
		default:
			err = os.WriteFile(p, Marshal(e.Msg), 0o644)
		}
		if err != nil {
			panic(err)
		}
	}
	tempDirs = append(tempDirs, base)
	return base
}

var tempDirs []string

func Marshal(m *gtfsrt.FeedMessage) []byte {
	b, err := proto.MarshalOptions{AllowPartial: true}.Marshal(m)
	if err != nil {
		panic("vr.Marshal: " + err.Error())
	}
	return b
}

func BadBytes() []byte { return []byte{0xff, 0xff, 0xff, 0x07} }

func Ite[X any](c bool, a, b X) X {
	if c {
		return a
	}
	return b
}

var footprints = map[string]func(){}

// Footprint (native): remember the call; ConflictFree runs the two calls
// concurrently for the first time (so that once-only writes race), and the
// replay binary is built with -race for these harnesses.
func Footprint(label string, f func()) { footprints[label] = f }

func ConflictFree(a, b string) bool {
	fa, fb := footprints[a], footprints[b]
	// several rounds: state handed over through synchronised containers (a sync.Pool's per-P caches)
	// only reaches the other goroutine under some schedules
	for round := 0; round < 3000; round++ {
		var wg sync.WaitGroup
		wg.Add(2)
		go func() { defer wg.Done(); fa() }()
		go func() { defer wg.Done(); fb() }()
		wg.Wait()
	}
	return true
}

func WritesNothingShared(a string) bool { return true }

func Repeat(n int) int { return n }

// Sink is a hash.Hash that records the bytes it is fed.
type Sink struct{ B []byte }

func (s *Sink) Write(p []byte) (int, error) { s.B = append(s.B, p...); return len(p), nil }
func (s *Sink) Sum(b []byte) []byte         { return append(b, s.B...) }
func (s *Sink) Reset()                      { s.B = nil }
func (s *Sink) Size() int                   { return len(s.B) }
func (s *Sink) BlockSize() int              { return 1 }
func StreamEq(a, b *Sink) bool              { return bytes.Equal(a.B, b.B) }

func MaybeNilIf[T any](isNil bool, p *T) *T {
	if isNil {
		return nil
	}
	return p
}

// SplitCSV reads CSV text with the standard reader (blank lines, as encoding/csv does, are skipped).
func SplitCSV(b []byte) [][]string {
	r := csv.NewReader(bytes.NewReader(b))
	r.FieldsPerRecord = -1
	rows, err := r.ReadAll()
	if err != nil {
		fmt.Println("\nASSERT-FAILED csv.parse", err)
		return nil
	}
	return rows
}

func P[X any](v X) *X { return &v }

// DeepEq: graph isomorphism from the two roots. nil and empty slices are
// identified; time.Time compares instant and zone name; pointers are followed
// with a visited-pairs set.
func DeepEq(a, b any) bool {
	return deepEq(reflect.ValueOf(a), reflect.ValueOf(b), map[[2]uintptr]bool{})
}

var timeType = reflect.TypeOf(time.Time{})
var locType = reflect.TypeOf(time.Location{})

func deepEq(a, b reflect.Value, seen map[[2]uintptr]bool) bool {
	if !a.IsValid() || !b.IsValid() {
		return a.IsValid() == b.IsValid()
	}
	if a.Type() != b.Type() {
		return false
	}
	if a.Type() == timeType {
		ta := a.Interface().(time.Time)
		tb := b.Interface().(time.Time)
		return ta.Unix() == tb.Unix() && ta.Location().String() == tb.Location().String()
	}
	switch a.Kind() {
	case reflect.Ptr:
		if a.IsNil() || b.IsNil() {
			return a.IsNil() == b.IsNil()
		}
		if a.Type().Elem() == locType {
			return a.Pointer() == b.Pointer()
		}
		k := [2]uintptr{a.Pointer(), b.Pointer()}
		if seen[k] {
			return true
		}
		seen[k] = true
		return deepEq(a.Elem(), b.Elem(), seen)
	case reflect.Struct:
		for i := 0; i < a.NumField(); i++ {
			if !deepEq(a.Field(i), b.Field(i), seen) {
				return false
			}
		}
		return true
	case reflect.Slice, reflect.Array:
		if a.Len() != b.Len() {
			return false
		}
		for i := 0; i < a.Len(); i++ {
			ea, eb := a.Index(i), b.Index(i)
			if ea.CanAddr() && eb.CanAddr() {
				seen[[2]uintptr{ea.Addr().Pointer(), eb.Addr().Pointer()}] = true
			}
			if !deepEq(ea, eb, seen) {
				return false
			}
		}
		return true
	case reflect.Interface:
		if a.IsNil() || b.IsNil() {
			return a.IsNil() == b.IsNil()
		}
		return deepEq(a.Elem(), b.Elem(), seen)
	case reflect.Map:
		if a.Len() != b.Len() {
			return false
		}
		for _, k := range a.MapKeys() {
			bv := b.MapIndex(k)
			if !bv.IsValid() || !deepEq(a.MapIndex(k), bv, seen) {
				return false
			}
		}
		return true
	case reflect.Func:
		return true
	case reflect.Bool:
		return a.Bool() == b.Bool()
	case reflect.Int, reflect.Int8, reflect.Int16, reflect.Int32, reflect.Int64:
		return a.Int() == b.Int()
	case reflect.Uint, reflect.Uint8, reflect.Uint16, reflect.Uint32, reflect.Uint64, reflect.Uintptr:
		return a.Uint() == b.Uint()
	case reflect.Float32, reflect.Float64:
		return math.Float64bits(a.Float()) == math.Float64bits(b.Float())
	case reflect.String:
		return a.String() == b.String()
	}
	return false
}
