package main

// Pure string -> string library functions evaluated by the real function when
// the argument is concrete (file and member names, constants); a symbolic
// argument ends the path as unsupported.

import (
	"path"
	"path/filepath"
	"strings"

	"golang.org/x/tools/go/ssa"
)

func init() {
	pure := map[string]func(string) string{
		"path.Base":           path.Base,
		"path.Ext":            path.Ext,
		"path.Clean":          path.Clean,
		"path.Dir":            path.Dir,
		"path/filepath.Base":  filepath.Base,
		"path/filepath.Ext":   filepath.Ext,
		"path/filepath.Clean": filepath.Clean,
		"path/filepath.Dir":   filepath.Dir,
		"strings.ToLower":     strings.ToLower,
		"strings.ToUpper":     strings.ToUpper,
	}
	for name, f := range pure {
		name, f := name, f
		if _, exists := stubs[name]; exists {
			continue
		}
		stubs[name] = func(e *Exec, fr *Frame, fn *ssa.Function, a []Value) Value {
			s, ok := a[0].(StrV).Const()
			if !ok {
				e.unsupported("%s of a symbolic string", name)
			}
			return chStr(e.tf, f(s))
		}
	}
}
