package main

// Harness runtime intrinsics (package internal/verifrt, symbolic flavour).

import (
	"fmt"
	"go/types"
	"math/big"
	"strings"

	"golang.org/x/tools/go/ssa"
)

type intrinsicFn func(e *Exec, fr *Frame, fn *ssa.Function, args []Value) Value

var intrinsics = map[string]intrinsicFn{}

func init() {
	for k, v := range map[string]intrinsicFn{
		"Bool":     inBool,
		"Int":      inInt,
		"I32":      func(e *Exec, fr *Frame, fn *ssa.Function, a []Value) Value { return inTyped(e, a, 32, true) },
		"U32":      func(e *Exec, fr *Frame, fn *ssa.Function, a []Value) Value { return inTyped(e, a, 32, false) },
		"I64":      func(e *Exec, fr *Frame, fn *ssa.Function, a []Value) Value { return inTyped(e, a, 64, true) },
		"U64":      func(e *Exec, fr *Frame, fn *ssa.Function, a []Value) Value { return inTyped(e, a, 64, false) },
		"F32":      func(e *Exec, fr *Frame, fn *ssa.Function, a []Value) Value { return inTyped(e, a, 32, false) },
		"F64":      func(e *Exec, fr *Frame, fn *ssa.Function, a []Value) Value { return inTyped(e, a, 64, false) },
		"Str":      inStr,
		"Chars":    inChars,
		"OneOf":    inOneOf,
		"Assume":   inAssume,
		"Assert":   inAssert,
		"Observe":  inObserve,
		"DeepEq":   inDeepEq,
		"MaybeNil": inMaybeNil,
		"T":        inTag,
		"MapOrder": inMapOrder,
		"Cfg":      inCfg,
		"Unix":     inUnix,
		"Param": func(e *Exec, fr *Frame, fn *ssa.Function, a []Value) Value {
			if v, ok := e.params[e.tagOf(a[0])]; ok {
				return e.tf.Int(int64(v))
			}
			return a[1]
		},
		"Register": func(e *Exec, fr *Frame, fn *ssa.Function, a []Value) Value { return nil },
		"And": func(e *Exec, fr *Frame, fn *ssa.Function, a []Value) Value {
			var ts []*Term
			for _, v := range strSliceArg(e, a[0]) {
				ts = append(ts, v.(*Term))
			}
			return e.tf.And(ts...)
		},
		"Or": func(e *Exec, fr *Frame, fn *ssa.Function, a []Value) Value {
			var ts []*Term
			for _, v := range strSliceArg(e, a[0]) {
				ts = append(ts, v.(*Term))
			}
			return e.tf.Or(ts...)
		},
		"Implies": func(e *Exec, fr *Frame, fn *ssa.Function, a []Value) Value {
			return e.tf.Implies(a[0].(*Term), a[1].(*Term))
		},
		"Ite": func(e *Exec, fr *Frame, fn *ssa.Function, a []Value) Value {
			c := a[0].(*Term)
			if c.IsTrue() {
				return a[1]
			}
			if c.IsFalse() {
				return a[2]
			}
			v, ok := e.joinOutcomes([]mergeOutcome{{c, a[1]}, {e.tf.Not(c), a[2]}})
			if !ok {
				if e.decide(c) {
					return a[1]
				}
				return a[2]
			}
			return v
		},
		"Symbolic": func(e *Exec, fr *Frame, fn *ssa.Function, a []Value) Value { return e.tf.Bool(true) },
	} {
		intrinsics[k] = v
	}
}

func (e *Exec) tagOf(v Value) string {
	s, ok := v.(StrV).Const()
	if !ok {
		e.unsupported("symbolic tag")
	}
	return s
}

func (e *Exec) input(name string, s Sort, lo, hi *big.Int) *Term {
	// a harness spec may pin an input to split one exploration over several workers
	if pv, ok := e.cfg["pin."+name]; ok {
		switch s {
		case SBool:
			return e.tf.Bool(pv == "true")
		case SInt:
			n, _ := new(big.Int).SetString(pv, 10)
			return e.tf.IntB(n)
		}
	}
	t := e.tf.Var(name, s, lo, hi)
	if !e.inputSeen[name] {
		e.inputSeen[name] = true
		e.inputs = append(e.inputs, t)
		if s == SInt && (lo != nil || hi != nil) {
			var cs []*Term
			if lo != nil {
				cs = append(cs, e.tf.mk(&Term{Op: "<=", Sort: SBool, Args: []*Term{e.tf.IntB(lo), t}}))
			}
			if hi != nil {
				cs = append(cs, e.tf.mk(&Term{Op: "<=", Sort: SBool, Args: []*Term{t, e.tf.IntB(hi)}}))
			}
			e.assumeFresh(e.tf.And(cs...))
		}
	}
	return t
}

func inBool(e *Exec, fr *Frame, fn *ssa.Function, a []Value) Value {
	return e.input(e.tagOf(a[0]), SBool, nil, nil)
}

func inInt(e *Exec, fr *Frame, fn *ssa.Function, a []Value) Value {
	lo, ok1 := constInt(a[1].(*Term))
	hi, ok2 := constInt(a[2].(*Term))
	if !ok1 || !ok2 {
		e.unsupported("Int with symbolic range")
	}
	if lo == hi {
		return e.tf.Int(int64(lo))
	}
	return e.input(e.tagOf(a[0]), SInt, bi(int64(lo)), bi(int64(hi)))
}

func inTyped(e *Exec, a []Value, bits int, signed bool) Value {
	lo, hi := typeRange(bits, signed)
	return e.input(e.tagOf(a[0]), SInt, lo, hi)
}

// printable ASCII without the characters that matter to CSV framing
const strAlphabet = `(re.* (re.union (re.range "a" "z") (re.range "A" "Z") (re.range "0" "9") (str.to_re "_") (str.to_re "-") (str.to_re ".") (str.to_re ":") (str.to_re " ") (str.to_re "#")))`

func inStr(e *Exec, fr *Frame, fn *ssa.Function, a []Value) Value {
	name := e.tagOf(a[0])
	t := e.tf.Var(name, SStr, nil, nil)
	if !e.inputSeen[name] {
		e.inputSeen[name] = true
		e.inputs = append(e.inputs, t)
		maxLen := int64(4)
		if v, ok := e.cfg["strlen"]; ok {
			fmt.Sscan(v, &maxLen)
		}
		e.assumeFresh(e.tf.mk(&Term{Op: "<=", Sort: SBool, Args: []*Term{e.tf.StrLen(t), e.tf.Int(maxLen)}}))
	}
	return StrV{T: t}
}

// charClasses: name -> list of inclusive ranges
var charClasses = map[string][][2]int{
	"digit": {{'0', '9'}},
	"alnum": {{'0', '9'}, {'A', 'Z'}, {'a', 'z'}},
	"upper": {{'A', 'Z'}},
	"print": {{32, 126}},
	"any":   {{0, 127}},
	"time":  {{'0', '9'}, {':', ':'}, {' ', ' '}, {'x', 'x'}},
	"num":   {{'0', '9'}, {'-', '-'}, {'.', '.'}, {' ', ' '}, {'x', 'x'}},
}

func inChars(e *Exec, fr *Frame, fn *ssa.Function, a []Value) Value {
	name := e.tagOf(a[0])
	n, ok := constInt(a[1].(*Term))
	if !ok {
		e.unsupported("Chars with symbolic length")
	}
	class := e.tagOf(a[2])
	rs, ok := charClasses[class]
	if !ok {
		e.unsupported("unknown char class %s", class)
	}
	cs := make([]*Term, n)
	for i := 0; i < n; i++ {
		lo, hi := rs[0][0], rs[len(rs)-1][1]
		for _, r := range rs {
			if r[0] < lo {
				lo = r[0]
			}
			if r[1] > hi {
				hi = r[1]
			}
		}
		vn := fmt.Sprintf("%s[%d]", name, i)
		c := e.input(vn, SInt, bi(int64(lo)), bi(int64(hi)))
		if len(rs) > 1 && !e.pathAuxSeen("cls:"+vn) {
			var alts []*Term
			for _, r := range rs {
				if r[0] == r[1] {
					alts = append(alts, e.tf.Eq(c, e.tf.Int(int64(r[0]))))
				} else {
					alts = append(alts, e.tf.And(e.tf.Le(e.tf.Int(int64(r[0])), c), e.tf.Le(c, e.tf.Int(int64(r[1])))))
				}
			}
			e.assumeFresh(e.tf.Or(alts...))
		}
		cs[i] = c
	}
	return StrV{Chars: cs, IsCh: true}
}

func (e *Exec) pathAuxSeen(k string) bool {
	if _, ok := e.pathAux[k]; ok {
		return true
	}
	e.pathAux[k] = true
	return false
}

func inOneOf(e *Exec, fr *Frame, fn *ssa.Function, a []Value) Value {
	name := e.tagOf(a[0])
	opts := a[1].(SliceV)
	if opts.Len == 0 {
		e.unsupported("OneOf without options")
	}
	if opts.Len == 1 {
		return getPath(opts.Arr.V, []int{opts.Off})
	}
	k := e.input(name, SInt, bi(0), bi(int64(opts.Len-1)))
	for i := 0; i < opts.Len-1; i++ {
		if e.decide(e.tf.Eq(k, e.tf.Int(int64(i)))) {
			return getPath(opts.Arr.V, []int{opts.Off + i})
		}
	}
	return getPath(opts.Arr.V, []int{opts.Off + opts.Len - 1})
}

func inAssume(e *Exec, fr *Frame, fn *ssa.Function, a []Value) Value {
	e.assume(a[0].(*Term))
	return nil
}

func inAssert(e *Exec, fr *Frame, fn *ssa.Function, a []Value) Value {
	e.obligation(e.tagOf(a[0]), a[1].(*Term), fr)
	return nil
}

func inObserve(e *Exec, fr *Frame, fn *ssa.Function, a []Value) Value {
	e.observes = append(e.observes, obsRec{e.tagOf(a[0]), a[1]})
	return nil
}

func inTag(e *Exec, fr *Frame, fn *ssa.Function, a []Value) Value {
	parts := a[0].(SliceV)
	var sb strings.Builder
	for i := 0; i < parts.Len; i++ {
		iv := getPath(parts.Arr.V, []int{parts.Off + i}).(IfaceV)
		switch x := iv.V.(type) {
		case StrV:
			s, ok := x.Const()
			if !ok {
				e.unsupported("symbolic tag part")
			}
			sb.WriteString(s)
		case *Term:
			if x.Op == "int" {
				sb.WriteString(x.I.String())
			} else if x.Op == "bool" {
				fmt.Fprint(&sb, x.B)
			} else {
				e.unsupported("symbolic tag part")
			}
		default:
			e.unsupported("tag part %T", iv.V)
		}
	}
	return chStr(e.tf, sb.String())
}

func inMapOrder(e *Exec, fr *Frame, fn *ssa.Function, a []Value) Value {
	e.mapOrder = e.tagOf(a[0])
	return nil
}

func inCfg(e *Exec, fr *Frame, fn *ssa.Function, a []Value) Value {
	e.cfg[e.tagOf(a[0])] = e.tagOf(a[1])
	return nil
}

// Unix(sec, loc) builds a time.Time with the given unix seconds in loc.
func inUnix(e *Exec, fr *Frame, fn *ssa.Function, a []Value) Value {
	return TimeV{Sec: a[0].(*Term), Loc: e.locOf(a[1].(Ptr))}
}

func inMaybeNil(e *Exec, fr *Frame, fn *ssa.Function, a []Value) Value {
	p := a[1].(Ptr)
	if p.Obj == nil {
		return p
	}
	b := e.input(e.tagOf(a[0]), SBool, nil, nil)
	nc := b
	if p.NilCond != nil {
		nc = e.tf.Or(p.NilCond, b)
	}
	return Ptr{Obj: p.Obj, Path: p.Path, NilCond: nc}
}

// ---- DeepEq: graph isomorphism from two roots, as a term

type eqPair struct {
	a, b *Obj
	pa   string
}

func inDeepEq(e *Exec, fr *Frame, fn *ssa.Function, a []Value) Value {
	x, y := a[0].(IfaceV), a[1].(IfaceV)
	if x.T == nil || y.T == nil {
		return e.tf.Bool(x.T == nil && y.T == nil)
	}
	if !types.Identical(x.T, y.T) {
		return e.tf.Bool(false)
	}
	return e.deepEq(x.V, y.V, x.T, map[string]bool{})
}

func (e *Exec) deepEq(a, b Value, t types.Type, seen map[string]bool) *Term {
	tf := e.tf
	switch x := a.(type) {
	case *Term:
		return tf.Eq(x, b.(*Term))
	case StrV:
		return strEq(tf, x, b.(StrV))
	case TimeV:
		y := b.(TimeV)
		if x.Loc != y.Loc {
			return tf.Bool(false)
		}
		return tf.Eq(x.Sec, y.Sec)
	case Ptr:
		y := b.(Ptr)
		na, nb := nilCondOf(tf, x), nilCondOf(tf, y)
		if x.Obj == nil || y.Obj == nil {
			return tf.And(na, nb)
		}
		key := fmt.Sprintf("%d%v|%d%v", x.Obj.ID, x.Path, y.Obj.ID, y.Path)
		var inner *Term
		if seen[key] {
			inner = tf.Bool(true)
		} else {
			seen[key] = true
			var et types.Type
			if pt, ok := t.Underlying().(*types.Pointer); ok {
				et = pt.Elem()
			}
			if x.Obj.Aux != nil || y.Obj.Aux != nil {
				inner = tf.Bool(x.Obj == y.Obj)
			} else {
				inner = e.deepEq(getPath(x.Obj.V, x.Path), getPath(y.Obj.V, y.Path), et, seen)
			}
		}
		return tf.Or(tf.And(na, nb), tf.And(tf.Not(na), tf.Not(nb), inner))
	case StructV:
		y := b.(StructV)
		st, _ := t.Underlying().(*types.Struct)
		var cs []*Term
		for i := range x.F {
			var ft types.Type
			if st != nil {
				ft = st.Field(i).Type()
			}
			cs = append(cs, e.deepEq(x.F[i], y.F[i], ft, seen))
		}
		return tf.And(cs...)
	case ArrayV:
		y := b.(ArrayV)
		var et types.Type
		if at, ok := t.Underlying().(*types.Array); ok {
			et = at.Elem()
		}
		var cs []*Term
		for i := range x.E {
			cs = append(cs, e.deepEq(x.E[i], y.E[i], et, seen))
		}
		return tf.And(cs...)
	case SliceV:
		y := b.(SliceV)
		if x.Len != y.Len {
			return tf.Bool(false)
		}
		var et types.Type
		if st, ok := t.Underlying().(*types.Slice); ok {
			et = st.Elem()
		}
		var cs []*Term
		for i := 0; i < x.Len; i++ {
			pa := Ptr{Obj: x.Arr, Path: []int{x.Off + i}}
			pb := Ptr{Obj: y.Arr, Path: []int{y.Off + i}}
			key := fmt.Sprintf("%d%v|%d%v", pa.Obj.ID, pa.Path, pb.Obj.ID, pb.Path)
			seen[key] = true
			cs = append(cs, e.deepEq(getPath(x.Arr.V, pa.Path), getPath(y.Arr.V, pb.Path), et, seen))
		}
		return tf.And(cs...)
	case IfaceV:
		y := b.(IfaceV)
		if x.T == nil || y.T == nil {
			return tf.Bool(x.T == nil && y.T == nil)
		}
		if !types.Identical(x.T, y.T) {
			return tf.Bool(false)
		}
		return e.deepEq(x.V, y.V, x.T, seen)
	case MapV:
		y := b.(MapV)
		if x.M == nil || y.M == nil {
			return tf.Bool((x.M == nil || len(x.M.Keys) == 0) && (y.M == nil || len(y.M.Keys) == 0))
		}
		e.unsupported("DeepEq on maps")
	case FuncV:
		return tf.Bool(true)
	case nil:
		return tf.Bool(b == nil)
	}
	e.unsupported("DeepEq on %T", a)
	return nil
}
