package main

// time.Parse for the clock layout and (time.Time).Clock, needed when the
// repository validates HH:MM:SS through package time.

import (
	"time"

	"golang.org/x/tools/go/ssa"
)

const zeroYearSec = -62167219200 // 0000-01-01T00:00:00Z, the date time.Parse gives a clock-only layout

func init() {
	stubs["time.Parse"] = func(e *Exec, fr *Frame, fn *ssa.Function, a []Value) Value {
		tf := e.tf
		layout, ok := a[0].(StrV).Const()
		if !ok {
			e.unsupported("time.Parse with a symbolic layout")
		}
		s := a[1].(StrV)
		bad := TupleV{TimeV{Sec: tf.Int(-62135596800)}, e.newError("parsing time")}
		if cs, ok := s.Const(); ok {
			t, err := time.Parse(layout, cs)
			if err != nil {
				return bad
			}
			if t.Nanosecond() != 0 {
				e.unsupported("time.Parse yielding fractional seconds")
			}
			return TupleV{TimeV{Sec: tf.Int(t.Unix())}, IfaceV{}}
		}
		if layout != "15:04:05" {
			e.unsupported("time.Parse layout %q on symbolic input", layout)
		}
		if !s.IsCh {
			e.unsupported("time.Parse on symbolic-length string")
		}
		if len(s.Chars) < 8 {
			return bad
		}
		if len(s.Chars) > 8 {
			// the library accepts a fractional-second suffix here; keep to what is modelled
			e.unsupported("time.Parse of a clock string longer than 8 bytes")
		}
		c := s.Chars
		shape := tf.And(isDigitTerm(tf, c[0]), isDigitTerm(tf, c[1]), tf.Eq(c[2], tf.Int(':')), isDigitTerm(tf, c[3]), isDigitTerm(tf, c[4]),
			tf.Eq(c[5], tf.Int(':')), isDigitTerm(tf, c[6]), isDigitTerm(tf, c[7]))
		if !e.decide(shape) {
			return bad
		}
		h, m, sec := digitsVal(tf, c[0:2]), digitsVal(tf, c[3:5]), digitsVal(tf, c[6:8])
		if !e.decide(tf.And(tf.Lt(h, tf.Int(24)), tf.Lt(m, tf.Int(60)), tf.Lt(sec, tf.Int(60)))) {
			return bad
		}
		t := tf.Add(tf.Int(zeroYearSec), tf.Add(tf.Mul(h, tf.Int(3600)), tf.Add(tf.Mul(m, tf.Int(60)), sec)))
		return TupleV{TimeV{Sec: t}, IfaceV{}}
	}
	stubs["(time.Time).Clock"] = func(e *Exec, fr *Frame, fn *ssa.Function, a []Value) Value {
		tf := e.tf
		t := a[0].(TimeV)
		if t.Loc != nil && e.locName(t.Loc) != "UTC" {
			e.unsupported("Time.Clock in a non-UTC location")
		}
		sod := tf.EMod(t.Sec, 86400)
		return TupleV{tf.EDiv(sod, 3600), tf.EDiv(tf.EMod(sod, 3600), 60), tf.EMod(sod, 60)}
	}
}

func init() {
	// MarshalBinary: version, seconds (8 bytes), nanoseconds (4), zone offset in minutes (2; -1 = UTC).
	// The bytes are kept as a chunk list like every other hash input.
	stubs["(time.Time).MarshalBinary"] = func(e *Exec, fr *Frame, fn *ssa.Function, a []Value) Value {
		tf := e.tf
		t := a[0].(TimeV)
		var off *Term
		if t.Loc == nil || e.locName(t.Loc) == "UTC" {
			off = tf.Int(-1)
		} else if t.Sec.Op == "int" {
			_, o := time.Unix(t.Sec.I.Int64(), 0).In(t.Loc.Aux.(*time.Location)).Zone()
			off = tf.Int(int64(o / 60))
		} else {
			off = tf.UF("zoneoffmin_"+sanitize(e.locName(t.Loc)), SInt, t.Sec)
			// a named zone never encodes as -1 (that value is reserved for UTC); offsets are within +-14 h
			e.assumeAxiom(tf.And(tf.Le(tf.Int(-840), off), tf.Le(off, tf.Int(840)), tf.Not(tf.Eq(off, tf.Int(-1)))))
		}
		cs := []chunk{{num: true, width: 1, t: tf.Int(1)}, {num: true, width: 8, t: tf.Add(t.Sec, tf.Int(62135596800))},
			{num: true, width: 4, t: tf.Int(0)}, {num: true, width: 2, t: off}}
		return TupleV{chunksV{cs: cs}, IfaceV{}}
	}
	stubs["(*bytes.Buffer).Write"] = func(e *Exec, fr *Frame, fn *ssa.Function, a []Value) Value {
		p := a[0].(Ptr)
		e.bufTouch(p, true)
		key := e.bufKey(p)
		cur := e.bufGet(p)
		switch b := a[1].(type) {
		case chunksV:
			e.pathAux[key] = append(append([]chunk{}, cur...), b.cs...)
			n := e.tf.Int(0)
			for _, c := range b.cs {
				n = e.tf.Add(n, e.chunkLen(c))
			}
			return TupleV{n, IfaceV{}}
		case BytesV:
			st := b.S.Term(e.tf)
			e.pathAux[key] = append(append([]chunk{}, cur...), chunk{t: st})
			return TupleV{e.tf.StrLen(st), IfaceV{}}
		}
		e.unsupported("bytes.Buffer.Write of %T", a[1])
		return nil
	}
}

// civilParts: the calendar date of an abstract time, when it is known: a
// concrete instant (computed by package time) or local midnight of a symbolic
// civil date (the arguments of the civil(y,m,d) term).
func (e *Exec) civilParts(t TimeV) (y, m, d *Term, ok bool) {
	tf := e.tf
	if t.Sec.Op == "int" {
		l := time.UTC
		if t.Loc != nil {
			l = t.Loc.Aux.(*time.Location)
		}
		tt := time.Unix(t.Sec.I.Int64(), 0).In(l)
		return tf.Int(int64(tt.Year())), tf.Int(int64(tt.Month())), tf.Int(int64(tt.Day())), true
	}
	if t.Sec.Op == "uf" && len(t.Sec.Args) == 3 && t.Sec.S == "civil_"+sanitize(e.locName(t.Loc)) {
		return t.Sec.Args[0], t.Sec.Args[1], t.Sec.Args[2], true
	}
	return nil, nil, nil, false
}

func init() {
	part := func(i int, name string) {
		stubs["(time.Time)."+name] = func(e *Exec, fr *Frame, fn *ssa.Function, a []Value) Value {
			y, m, d, ok := e.civilParts(a[0].(TimeV))
			if !ok {
				e.unsupported("Time.%s of a symbolic instant", name)
			}
			return []*Term{y, m, d}[i]
		}
	}
	part(0, "Year")
	part(1, "Month")
	part(2, "Day")
}
