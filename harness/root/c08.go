//go:build verif

package gtfs

import (
	vr "github.com/jamespfennell/gtfs/internal/verifrt"
)

func init() {
	vr.Register("Harness_C08_stop_times", Harness_C08_stop_times)
	vr.Register("Harness_C08_shapes", Harness_C08_shapes)
}

func hPermutations(rows [][]string) [][][]string {
	n := len(rows)
	var out [][][]string
	if n < 2 {
		return out
	}
	rev := make([][]string, n)
	for i := range rows {
		rev[n-1-i] = rows[i]
	}
	out = append(out, rev)
	if n > 2 {
		out = append(out, append(append([][]string{}, rows[1:]...), rows[0]))
	}
	return out
}

// stop_times.txt: R rows over up to two trips (which rows belong together is
// symbolic), symbolic distinct sequence numbers; sortedness within each trip
// and independence of the row order (reversal and rotation generate all permutations).
func Harness_C08_stop_times() {
	R := vr.Param("R", 3)
	files := hBase()
	files["trips.txt"] = vr.File{Name: "trips.txt", Header: []string{"route_id", "service_id", "trip_id"}, Rows: [][]string{{"r1", "sv1", "t1"}, {"r1", "sv1", "t2"}}}
	hdr := []string{"trip_id", "arrival_time", "departure_time", "stop_id", "stop_sequence", "stop_headsign"}
	var rows [][]string
	for i := 0; i < R; i++ {
		tm := "08:00:00"
		if vr.Param("UNTIMED", 0) == 1 {
			tm = vr.OneOf(vr.T("st.r", i, ".time"), "08:00:00", "") // a row giving neither time is legal and is dropped
		}
		rows = append(rows, []string{vr.OneOf(vr.T("st.r", i, ".trip"), "t1", "t2"), tm, tm, vr.OneOf(vr.T("st.r", i, ".stop"), "s1", "s2"),
			vr.Chars(vr.T("st.r", i, ".seq"), vr.Param("SEQW", 1), "digit"), vr.Str(vr.T("st.r", i, ".headsign"))})
	}
	for i := 0; i < R; i++ {
		for j := i + 1; j < R; j++ {
			vr.Assume(vr.Or(rows[i][0] != rows[j][0], rows[i][4] != rows[j][4]))
		}
	}
	files["stop_times.txt"] = vr.File{Name: "stop_times.txt", Header: hdr, Rows: rows}
	base := hParse(files, ParseStaticOptions{})
	if base == nil {
		return
	}
	total := 0
	for k := range base.Trips {
		sts := base.Trips[k].StopTimes
		total += len(sts)
		for q := 0; q+1 < len(sts); q++ {
			vr.Assert("C08.stoptimes.sorted", sts[q].StopSequence < sts[q+1].StopSequence)
		}
	}
	timed := 0
	for i := range rows {
		if rows[i][1] != "" {
			timed++
		}
	}
	vr.Assert("C08.stoptimes.count", total == timed)
	for _, p := range hPermutations(rows) {
		files["stop_times.txt"] = vr.File{Name: "stop_times.txt", Header: hdr, Rows: p}
		r := hParse(files, ParseStaticOptions{})
		if r == nil {
			return
		}
		vr.Assert("C08.perm.stop_times", vr.DeepEq(base.Trips, r.Trips))
	}
}

// shapes.txt: R points over up to two shapes with symbolic ids and sequence numbers.
func Harness_C08_shapes() {
	R := vr.Param("R", 3)
	files := hBase()
	hdr := []string{"shape_id", "shape_pt_lat", "shape_pt_lon", "shape_pt_sequence", "shape_dist_traveled"}
	ida, idb := vr.Str("shape.a"), vr.Str("shape.b")
	vr.Assume(ida != "" && idb != "" && ida != idb)
	var rows [][]string
	for i := 0; i < R; i++ {
		id := ida
		if vr.Bool(vr.T("sh.r", i, ".is_b")) {
			id = idb
		}
		rows = append(rows, []string{id, []string{"1.5", "-2.25", "3", "8"}[i%4], "7.5",
			vr.Chars(vr.T("sh.r", i, ".seq"), vr.Param("SEQW", 1), "digit"), vr.OneOf(vr.T("sh.r", i, ".dist"), "", "0.5")})
	}
	for i := 0; i < R; i++ {
		for j := i + 1; j < R; j++ {
			vr.Assume(vr.Or(rows[i][0] != rows[j][0], rows[i][3] != rows[j][3]))
		}
	}
	files["shapes.txt"] = vr.File{Name: "shapes.txt", Header: hdr, Rows: rows}
	base := hParse(files, ParseStaticOptions{})
	if base == nil {
		return
	}
	total := 0
	for k := range base.Shapes {
		total += len(base.Shapes[k].Points)
		if k+1 < len(base.Shapes) {
			vr.Assert("C08.shapes.ids", base.Shapes[k].ID < base.Shapes[k+1].ID)
		}
		// points ascending by sequence: each point is the row with the k-th smallest sequence of that shape
		var mine [][]string
		for i := range rows {
			if rows[i][0] == base.Shapes[k].ID {
				mine = append(mine, rows[i])
			}
		}
		vr.Assert("C08.shapes.count", len(mine) == len(base.Shapes[k].Points))
		if len(mine) != len(base.Shapes[k].Points) {
			continue
		}
		for q := range base.Shapes[k].Points {
			// the row whose sequence has exactly q smaller sequences in this shape
			for _, row := range mine {
				smaller := 0
				for _, o := range mine {
					if hAtoi(o[3]) < hAtoi(row[3]) {
						smaller++
					}
				}
				if smaller == q {
					vr.Assert("C08.shapes.points", vr.DeepEq(base.Shapes[k].Points[q].Distance == nil, row[4] == ""))
					vr.Assert("C08.shapes.points", vr.DeepEq(base.Shapes[k].Points[q].Latitude, hFloat(row[1])))
				}
			}
		}
	}
	vr.Assert("C08.shapes.count", total == R)
	for _, p := range hPermutations(rows) {
		files["shapes.txt"] = vr.File{Name: "shapes.txt", Header: hdr, Rows: p}
		r := hParse(files, ParseStaticOptions{})
		if r == nil {
			return
		}
		vr.Assert("C08.perm.shapes", vr.DeepEq(base.Shapes, r.Shapes))
	}
}

func hAtoi(s string) int {
	n := 0
	for i := 0; i < len(s); i++ {
		n = n*10 + int(s[i]-'0')
	}
	return n
}

func hFloat(s string) float64 {
	switch s {
	case "1.5":
		return 1.5
	case "-2.25":
		return -2.25
	case "3":
		return 3
	case "7.5":
		return 7.5
	case "8":
		return 8
	case "0.5":
		return 0.5
	}
	return 0
}
