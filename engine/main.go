package main

import (
	"encoding/json"
	"flag"
	"fmt"
	"math/big"
	"os"
	"path/filepath"
	"sort"
	"strings"
	"sync"
	"time"
)

type bigInt = big.Int

type HarnessSpec struct {
	Pkg    string            `json:"pkg"` // harness dir name (root, journal, ...)
	Fn     string            `json:"fn"`
	Params map[string]int    `json:"params,omitempty"`
	Cfg    map[string]string `json:"cfg,omitempty"`
	Note   string            `json:"note,omitempty"`
}

type PropSpec struct {
	Quick       []HarnessSpec `json:"quick"`
	Thorough    []HarnessSpec `json:"thorough"`
	Assumptions []string      `json:"assumptions"`
	Outside     []string      `json:"outside_claim"`
	Bounds      string        `json:"bounds"`
}

type KnownFinding struct {
	Property string `json:"property"`
	AssertID string `json:"assert_id"`
	Kind     string `json:"kind"`
	Site     string `json:"site"`
	What     string `json:"what"`
	Status   string `json:"status"` // known | fixed
	Commit   string `json:"commit,omitempty"`
}

func pkgPathOf(dir string) string {
	rel := harnessPkgDirs[dir]
	if rel == "." {
		return repoMod
	}
	return repoMod + "/" + rel
}

func main() {
	if len(os.Args) < 2 {
		fmt.Println("usage: ssasym check <Cxx> --tier quick|thorough | run <pkg> <fn> | replay <file>")
		os.Exit(2)
	}
	switch os.Args[1] {
	case "check":
		os.Exit(cmdCheck(os.Args[2:]))
	case "run":
		os.Exit(cmdRun(os.Args[2:]))
	case "replay":
		os.Exit(cmdReplay(os.Args[2:]))
	default:
		fmt.Println("unknown command")
		os.Exit(2)
	}
}

func loadRegistry() map[string]PropSpec {
	b, err := os.ReadFile(filepath.Join(verifDir, "harness", "registry.json"))
	if err != nil {
		fmt.Fprintln(os.Stderr, "registry:", err)
		os.Exit(2)
	}
	var r map[string]PropSpec
	if err := json.Unmarshal(b, &r); err != nil {
		fmt.Fprintln(os.Stderr, "registry:", err)
		os.Exit(2)
	}
	return r
}

func loadKnown() []KnownFinding {
	b, err := os.ReadFile(filepath.Join(verifDir, "known_findings.json"))
	if err != nil {
		return nil
	}
	var k struct {
		Findings []KnownFinding `json:"findings"`
	}
	json.Unmarshal(b, &k)
	return k.Findings
}

type harnessResult struct {
	Spec HarnessSpec
	E    *Exec
	Wall time.Duration
	Err  string
}

func runHarness(p *Program, hs HarnessSpec, timeoutMs int) *harnessResult {
	t0 := time.Now()
	res := &harnessResult{Spec: hs}
	fn := p.Func(pkgPathOf(hs.Pkg), hs.Fn)
	if fn == nil {
		res.Err = "harness function not found: " + hs.Pkg + "." + hs.Fn
		return res
	}
	e, err := NewExec(p, hs.Fn, timeoutMs)
	if err != nil {
		res.Err = err.Error()
		return res
	}
	defer e.sol.Close()
	e.params = hs.Params
	for k, v := range hs.Cfg {
		e.cfg[k] = v
	}
	if v, ok := hs.Cfg["maxpaths"]; ok {
		fmt.Sscan(v, &e.MaxPaths)
	}
	budget := 1200
	if timeoutMs > 60000 {
		budget = 4 * 3600
	}
	if v, ok := hs.Cfg["maxseconds"]; ok {
		fmt.Sscan(v, &budget)
	}
	if v := os.Getenv("VERIF_MAXSECONDS"); v != "" { // validation runs: cap every harness
		fmt.Sscan(v, &budget)
	}
	e.Deadline = time.Now().Add(time.Duration(budget) * time.Second)
	// Once a failure is recorded the check will exit 1 if it reproduces: keep exploring for other
	// assertion ids only for a grace period. Not when open known findings exist (an unlisted
	// violation must still be found behind a listed one).
	e.FailGrace = 120 * time.Second
	for _, k := range loadKnown() {
		if k.Status == "known" {
			e.FailGrace = 0
		}
	}
	func() {
		defer func() {
			if r := recover(); r != nil {
				if _, ok := r.(pathEnd); ok {
					return
				}
				res.Err = fmt.Sprintf("engine panic: %v", r)
				if os.Getenv("VERIF_DEBUG") != "" {
					panic(r)
				}
			}
		}()
		e.Explore(fn)
	}()
	res.E = e
	res.Wall = time.Since(t0)
	return res
}

func cmdRun(args []string) int {
	fs := flag.NewFlagSet("run", flag.ExitOnError)
	timeout := fs.Int("timeout", 60000, "per-query timeout ms")
	params := fs.String("params", "", "k=v,k=v")
	cfgs := fs.String("cfg", "", "k=v,k=v")
	fs.Parse(args)
	if fs.NArg() < 2 {
		fmt.Println("usage: ssasym run [--params k=v] <pkgdir> <fn>")
		return 2
	}
	p, err := LoadProgram()
	if err != nil {
		fmt.Fprintln(os.Stderr, err)
		return 2
	}
	hs := HarnessSpec{Pkg: fs.Arg(0), Fn: fs.Arg(1), Params: map[string]int{}}
	for _, kv := range strings.Split(*params, ",") {
		if i := strings.IndexByte(kv, '='); i > 0 {
			var n int
			fmt.Sscan(kv[i+1:], &n)
			hs.Params[kv[:i]] = n
		}
	}
	hs.Cfg = map[string]string{}
	for _, kv := range strings.Split(*cfgs, ",") {
		if i := strings.IndexByte(kv, '='); i > 0 {
			hs.Cfg[kv[:i]] = kv[i+1:]
		}
	}
	r := runHarness(p, hs, *timeout)
	printResult(r)
	if r.Err != "" || len(r.E.Failures) > 0 {
		return 1
	}
	return 0
}

func printResult(r *harnessResult) {
	if r.Err != "" {
		fmt.Println("ERROR:", r.Err)
	}
	if r.E == nil {
		return
	}
	e := r.E
	fmt.Printf("%s: paths=%d ends=%v steps=%d obligations=%d discharged=%d queries=%d solver=%.1fs wall=%.1fs maxdec=%d\n",
		r.Spec.Fn, e.Paths, e.Ends, e.Steps, e.Obligations, e.Discharged, e.sol.Queries, e.sol.Time.Seconds(), r.Wall.Seconds(), e.MaxDecisions)
	for _, s := range dedupe(e.Inconclusive) {
		fmt.Println("  INCONCLUSIVE", s)
	}
	for _, f := range e.Failures {
		fmt.Printf("  FAIL kind=%s id=%s site=%s msg=%s pos=%s\n    model=%v\n", f.Kind, f.AssertID, f.Site, f.Msg, f.Pos, f.Model)
	}
	if e.Truncated {
		fmt.Println("  TRUNCATED at", e.MaxPaths, "paths")
	}
}

func dedupe(xs []string) []string {
	seen := map[string]int{}
	var out []string
	for _, x := range xs {
		if seen[x] == 0 {
			out = append(out, x)
		}
		seen[x]++
	}
	for i, x := range out {
		if seen[x] > 1 {
			out[i] = fmt.Sprintf("%s (x%d)", x, seen[x])
		}
	}
	return out
}

func cmdCheck(args []string) int {
	if len(args) < 1 {
		fmt.Println("usage: ssasym check <Cxx> --tier quick|thorough")
		return 2
	}
	prop := args[0]
	fs := flag.NewFlagSet("check", flag.ExitOnError)
	tier := fs.String("tier", "quick", "quick|thorough")
	jobs := fs.Int("j", 12, "parallel harnesses")
	fs.Parse(args[1:])
	if v := os.Getenv("VERIF_TIER"); v != "" && *tier == "" {
		*tier = v
	}
	t0 := time.Now()
	seed := 0
	fmt.Sscan(os.Getenv("VERIF_SEED"), &seed)
	reg := loadRegistry()
	ps, ok := reg[prop]
	if !ok {
		fmt.Println("no such property in registry:", prop)
		return 2
	}
	specs := ps.Quick
	timeoutMs := 60000
	if *tier == "thorough" {
		specs = ps.Thorough
		if len(specs) == 0 {
			specs = ps.Quick
		}
		timeoutMs = 300000
	}
	p, err := LoadProgram()
	if err != nil {
		// a tree that does not build is not a property violation; report and fail the check
		fmt.Fprintln(os.Stderr, "cannot load /repo:", err)
		return 2
	}
	results := make([]*harnessResult, len(specs))
	var wg sync.WaitGroup
	sem := make(chan struct{}, *jobs)
	for i, hs := range specs {
		wg.Add(1)
		go func(i int, hs HarnessSpec) {
			defer wg.Done()
			sem <- struct{}{}
			defer func() { <-sem }()
			results[i] = runHarness(p, hs, timeoutMs)
		}(i, hs)
	}
	wg.Wait()
	return report(prop, *tier, seed, ps, results, p, time.Since(t0))
}

func report(prop, tier string, seed int, ps PropSpec, results []*harnessResult, p *Program, wall time.Duration) int {
	known := loadKnown()
	rp := newReplayer(p)
	defer rp.cleanup()
	cov := map[string]interface{}{}
	var states, transitions, obligations, discharged, queries, validated int
	var solverTime float64
	var samples []interface{}
	var inconclusive []string
	funcs := map[string]bool{}
	stubsUsed := map[string]bool{}
	var harnessRows []map[string]interface{}
	violations := 0
	knownMatched := []string{}
	groupObl := map[string]int{}
	exit := 0
	for _, r := range results {
		if r.Err != "" {
			inconclusive = append(inconclusive, r.Spec.Fn+": "+r.Err)
		}
		if r.E == nil {
			continue
		}
		e := r.E
		printResult(r)
		states += e.Paths
		transitions += e.Steps
		obligations += e.Obligations
		discharged += e.Discharged
		queries += e.sol.Queries
		solverTime += e.sol.Time.Seconds()
		for _, s := range e.Samples {
			if len(samples) < 6 {
				samples = append(samples, s)
			}
		}
		inconclusive = append(inconclusive, dedupe(e.Inconclusive)...)
		if e.Truncated {
			inconclusive = append(inconclusive, fmt.Sprintf("%s: exploration truncated (path or time budget) after %d paths", r.Spec.Fn, e.Paths))
		}
		if e.StoppedEarly {
			fmt.Printf("%s%v: stopped early (another harness of this check already found a violation)\n", r.Spec.Fn, r.Spec.Params)
		}
		if e.sol.Errors > 0 {
			inconclusive = append(inconclusive, fmt.Sprintf("%s: %d solver error lines", r.Spec.Fn, e.sol.Errors))
		}
		for f := range e.FuncsSeen {
			funcs[f] = true
		}
		for f := range e.StubsSeen {
			stubsUsed[f] = true
		}
		// reachability witnesses: replay natively, must reach the assertion
		ids := sortedKeys(e.Reached)
		nwit := 0
		for _, id := range ids {
			if nwit >= 4 && tier == "quick" {
				break
			}
			nwit++
			out, err := rp.replay(r.Spec, e.Reached[id], "")
			if err != nil {
				inconclusive = append(inconclusive, fmt.Sprintf("%s: witness replay for %s failed: %v", r.Spec.Fn, id, err))
				continue
			}
			if out.reached[id] && len(out.failed) > 0 && len(e.Failures) == 0 {
				inconclusive = append(inconclusive, fmt.Sprintf("%s%v: the native run of the witness for %s fails %s although every obligation was discharged (ENGINE-MISMATCH)", r.Spec.Fn, r.Spec.Params, id, out.summary()))
			} else if out.reached[id] {
				validated++
			} else if out.assumeFailed {
				inconclusive = append(inconclusive, fmt.Sprintf("%s: witness for %s falls outside the native assumption (ENGINE-MISMATCH)", r.Spec.Fn, id))
			} else {
				inconclusive = append(inconclusive, fmt.Sprintf("%s%v: native run of the witness did not reach %s (ENGINE-MISMATCH) %s raw=%s", r.Spec.Fn, r.Spec.Params, id, out.summary(), truncStr(out.raw, 300)))
			}
		}
		// vacuity is judged per harness function and parameter set: a partition (cfg prefix)
		// may be empty, but some partition must reach the assertions
		gk := fmt.Sprintf("%s%v", r.Spec.Fn, r.Spec.Params)
		groupObl[gk] += e.Obligations + len(e.Failures)
		if _, ok := r.Spec.Cfg["prefix"]; !ok && e.Obligations == 0 && len(e.Failures) == 0 {
			inconclusive = append(inconclusive, r.Spec.Fn+": no assertion reached (vacuous harness)")
		}
		// failures: replay, classify
		seen := map[string]bool{}
		for _, f := range e.Failures {
			key := f.Kind + "|" + f.AssertID + "|" + f.Site
			if seen[key] {
				continue
			}
			out, err := rp.replay(r.Spec, f.Model, f.Kind)
			// a race only shows under some schedules: give the concurrent replay a few attempts
			for attempt := 1; err == nil && !out.reproduces(f) && strings.HasPrefix(f.AssertID, "C18.") && attempt < 5; attempt++ {
				out, err = rp.replay(r.Spec, f.Model, f.Kind)
			}
			if err != nil {
				inconclusive = append(inconclusive, fmt.Sprintf("%s: replay of %s failed to run: %v", r.Spec.Fn, f.AssertID, err))
				continue
			}
			if !out.reproduces(f) {
				if !seen["nr|"+key] {
					seen["nr|"+key] = true
					inconclusive = append(inconclusive, fmt.Sprintf("%s: counterexample for %s (%s at %s) did not reproduce natively: %s", r.Spec.Fn, f.AssertID, f.Kind, f.Site, out.summary()))
				}
				continue
			}
			seen[key] = true
			validated++
			if kf := matchKnown(known, prop, f); kf != nil {
				line := fmt.Sprintf("KNOWN-FINDING: property=%s %s [%s %s at %s]", prop, kf.What, f.Kind, f.AssertID, f.Site)
				fmt.Println(line)
				knownMatched = append(knownMatched, line)
				continue
			}
			violations++
			path := rp.saveReplay(prop, r.Spec, f)
			fmt.Printf("VIOLATION property=%s replay=%s\n", prop, path)
			fmt.Printf("  harness=%s kind=%s assert=%s site=%s\n  %s\n  %s\n", r.Spec.Fn, f.Kind, f.AssertID, f.Site, f.Msg, out.summary())
			exit = 1
		}
		harnessRows = append(harnessRows, map[string]interface{}{"harness": r.Spec.Fn, "params": r.Spec.Params, "cfg": r.Spec.Cfg, "paths": e.Paths, "path_ends": e.Ends,
			"ssa_instructions": e.Steps, "obligations": e.Obligations, "discharged": e.Discharged, "queries": e.sol.Queries,
			"solver_time_s": round2(e.sol.Time.Seconds()), "second_solver_verdicts": e.sol.Fallbacks, "wall_s": round2(r.Wall.Seconds()), "max_decisions_on_a_path": e.MaxDecisions, "assert_ids_reached": ids})
	}
	for gk, n := range groupObl {
		if n == 0 {
			inconclusive = append(inconclusive, gk+": no assertion reached in any partition (vacuous harness)")
		}
	}
	inconclusive = dedupe(inconclusive)
	for _, s := range inconclusive {
		fmt.Println("INCONCLUSIVE:", s)
	}
	if len(samples) == 0 {
		samples = append(samples, map[string]interface{}{"note": "no solver-discharged obligation on this run"})
	}
	if states == 0 {
		states = 1
	}
	if transitions == 0 {
		transitions = 1
	}
	cov["states"] = states
	cov["transitions"] = transitions
	cov["traces_validated_against_impl"] = validated
	cov["samples"] = samples
	cov["obligations"] = obligations
	cov["discharged"] = discharged
	cov["inconclusive"] = inconclusive
	cov["queries"] = queries
	cov["solver_time_s"] = round2(solverTime)
	cov["solver_versions"] = "z3 4.8.12 (deciding)"
	cov["functions_encoded"] = sortedKeys(funcs)
	cov["stubs_used"] = sortedKeys(stubsUsed)
	cov["bounds"] = ps.Bounds
	cov["outside_claim"] = ps.Outside
	cov["harnesses"] = harnessRows
	cov["known_findings_matched"] = knownMatched
	cov["explanation"] = "states = feasible paths explored by symbolic execution of the SSA of /repo's current source; transitions = SSA instructions executed; every obligation is the solver's verdict on (path condition AND NOT assertion); traces_validated = solver models replayed against the native build (reachability witnesses and reproduced counterexamples)"
	ev := map[string]interface{}{
		"property_id": prop, "tier": tier, "seed": seed, "level": "model_checking", "coverage": cov,
		"assumptions": ps.Assumptions, "wall_s": round2(wall.Seconds()), "violations": violations,
	}
	os.MkdirAll(filepath.Join(verifDir, "evidence"), 0o755)
	b, _ := json.MarshalIndent(ev, "", " ")
	os.WriteFile(filepath.Join(verifDir, "evidence", prop+".json"), b, 0o644)
	fmt.Printf("%s tier=%s paths=%d obligations=%d discharged=%d inconclusive=%d violations=%d known=%d wall=%.1fs\n",
		prop, tier, states, obligations, discharged, len(inconclusive), violations, len(knownMatched), wall.Seconds())
	return exit
}

func round2(f float64) float64 { return float64(int(f*100)) / 100 }

func matchKnown(known []KnownFinding, prop string, f Failure) *KnownFinding {
	for i := range known {
		k := &known[i]
		if k.Status != "known" {
			continue
		}
		if k.Property == prop && k.AssertID == f.AssertID && k.Kind == f.Kind && k.Site == f.Site {
			return k
		}
	}
	return nil
}

func sortStrings(xs []string) []string { sort.Strings(xs); return xs }
