package main

// Read/write footprints over pre-existing memory (C18).

import "fmt"

type cellKey struct {
	obj  int
	path string
}

type footprint struct {
	label  string
	epoch  int // cells of objects created at or after this epoch are private
	reads  map[cellKey]string
	writes map[cellKey]string
}

func newFootprint(label string, epoch int) *footprint {
	return &footprint{label: label, epoch: epoch, reads: map[cellKey]string{}, writes: map[cellKey]string{}}
}

func (f *footprint) read(p Ptr) {
	if p.Obj.Epoch >= f.epoch {
		return
	}
	f.reads[cellKey{p.Obj.ID, fmt.Sprint(p.Path)}] = p.Obj.Name
}

func (f *footprint) write(p Ptr, e *Exec) {
	if p.Obj.Epoch >= f.epoch {
		return
	}
	f.writes[cellKey{p.Obj.ID, fmt.Sprint(p.Path)}] = p.Obj.Name + "@" + e.curSite()
}

func (f *footprint) readMap(m *MapObj) {
	if m.Epoch >= f.epoch {
		return
	}
	f.reads[cellKey{-m.ID, ""}] = "map " + m.Name
}

func (f *footprint) writeMap(m *MapObj, e *Exec) {
	if m.Epoch >= f.epoch {
		return
	}
	f.writes[cellKey{-m.ID, ""}] = "map " + m.Name + "@" + e.curSite()
}

func (e *Exec) curSite() string {
	if e.frame != nil {
		return e.siteOf(e.frame)
	}
	return "?"
}
