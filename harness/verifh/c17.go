//go:build verif

package verifh

import (
	"encoding/json"
	"time"

	"github.com/jamespfennell/gtfs"
	"github.com/jamespfennell/gtfs/extensions/nyctalerts"
	vr "github.com/jamespfennell/gtfs/internal/verifrt"
	gtfsrt "github.com/jamespfennell/gtfs/proto"
	"google.golang.org/protobuf/proto"
)

func init() {
	vr.Register("Harness_C17_elevators", Harness_C17_elevators)
	vr.Register("Harness_C17_mercury", Harness_C17_mercury)
	vr.Register("Harness_C17_passthrough", Harness_C17_passthrough)
}

var hPolicies = []nyctalerts.ElevatorAlertsDeduplicationPolicy{nyctalerts.NoDeduplication, nyctalerts.DeduplicateInStation, nyctalerts.DeduplicateInComplex}

type hElev struct {
	station, dir, elev string
}

func (e hElev) id() string { return e.station + e.dir + "#EL" + e.elev }

// A elevator alerts over two stations, three platform suffixes and two
// elevators (all symbolic), under the policy POLICY and the station-id flag;
// the output is compared with the partition the statement describes, and
// must not depend on the order of the members.
func Harness_C17_elevators() {
	A := vr.Param("A", 2)
	policy := hPolicies[vr.Param("POLICY", 0)]
	useStation := vr.Bool("inform_using_station_ids")
	stations := []string{vr.Chars("station.a", 3, "alnum"), vr.Chars("station.b", 3, "alnum")}
	elevs := []string{vr.Chars("elevator.a", vr.Param("EW", 1), "alnum"), vr.Chars("elevator.b", vr.Param("EW", 1), "alnum")}
	vr.Assume(stations[0] != stations[1] && elevs[0] != elevs[1])
	var ms []hElev
	for i := 0; i < A; i++ {
		s, e := 0, 0
		if vr.Bool(vr.T("alert", i, ".station_b")) {
			s = 1
		}
		if vr.Bool(vr.T("alert", i, ".elevator_b")) {
			e = 1
		}
		ms = append(ms, hElev{stations[s], vr.OneOf(vr.T("alert", i, ".dir"), "", "N", "S"), elevs[e]})
	}
	// the entity id may carry text before the elevator pattern (the last alert tries it): two distinct
	// entity ids can then name the same platform and elevator, i.e. one group under every policy
	prefix := make([]string, A)
	prefix[A-1] = vr.OneOf("alert.last.prefix", "", "x-")
	// distinct entity ids (a feed does not repeat an entity id)
	for i := range ms {
		for j := i + 1; j < len(ms); j++ {
			vr.Assume(prefix[i]+ms[i].id() != prefix[j]+ms[j].id())
		}
	}
	build := func(order []int) *gtfsrt.FeedMessage {
		ver := "2.0"
		msg := &gtfsrt.FeedMessage{Header: &gtfsrt.FeedHeader{GtfsRealtimeVersion: &ver}}
		for _, i := range order {
			id := prefix[i] + ms[i].id()
			junk := "zzz"
			msg.Entity = append(msg.Entity, &gtfsrt.FeedEntity{Id: &id, Alert: &gtfsrt.Alert{InformedEntity: []*gtfsrt.EntitySelector{{StopId: &junk}}}})
		}
		return msg
	}
	parse := func(order []int) *gtfs.Realtime {
		r, err := gtfs.ParseRealtime(vr.Marshal(build(order)), &gtfs.ParseRealtimeOptions{Extension: nyctalerts.Extension(nyctalerts.ExtensionOpts{
			ElevatorAlertsDeduplicationPolicy: policy, ElevatorAlertsInformUsingStationIDs: useStation})})
		vr.Assert("C17.returns", err == nil && r != nil)
		return r
	}
	key := func(m hElev) string {
		switch policy {
		case nyctalerts.DeduplicateInStation:
			return m.station + "#EL" + m.elev
		case nyctalerts.DeduplicateInComplex:
			return "elevator:EL" + m.elev
		}
		return m.station + m.dir + "#EL" + m.elev
	}
	informed := func(m hElev) string {
		if useStation {
			return m.station
		}
		return m.station + m.dir
	}
	fwd := make([]int, A)
	rev := make([]int, A)
	for i := range fwd {
		fwd[i] = i
		rev[A-1-i] = i
	}
	for _, order := range [][]int{fwd, rev} {
		r := parse(order)
		if r == nil {
			return
		}
		// expected classes, in order of first member
		var keys []string
		var stops [][]string
		for _, i := range order {
			k := key(ms[i])
			at := -1
			for c := range keys {
				if keys[c] == k {
					at = c
				}
			}
			if at < 0 {
				keys = append(keys, k)
				stops = append(stops, nil)
				at = len(keys) - 1
			}
			dup := false
			for _, s := range stops[at] {
				if s == informed(ms[i]) {
					dup = true
				}
			}
			if !dup {
				stops[at] = append(stops[at], informed(ms[i]))
			}
		}
		vr.Assert("C17.elevator.one_per_group", len(r.Alerts) == len(keys))
		if len(r.Alerts) != len(keys) {
			return
		}
		for c := range keys {
			g := r.Alerts[c]
			vr.Assert("C17.elevator.id", g.ID == keys[c])
			vr.Assert("C17.elevator.cause_effect", g.Cause == gtfs.Maintenance && g.Effect == gtfs.AccessibilityIssue)
			vr.Assert("C17.elevator.informed_count", len(g.InformedEntities) == len(stops[c]))
			if len(g.InformedEntities) != len(stops[c]) {
				continue
			}
			for _, want := range stops[c] {
				found := false
				for _, ie := range g.InformedEntities {
					if ie.StopID != nil && *ie.StopID == want && ie.RouteID == nil && ie.AgencyID == nil && ie.TripID == nil {
						found = true
					}
				}
				vr.Assert("C17.elevator.informed_stops", found)
			}
		}
	}
}

func hm_EffectOf(p int) int {
	switch p {
	case 1, 39, 40:
		return int(gtfsrt.Alert_NO_SERVICE)
	case 2, 3, 4, 15, 25, 37:
		return int(gtfsrt.Alert_REDUCED_SERVICE)
	case 9:
		return int(gtfsrt.Alert_ADDITIONAL_SERVICE)
	case 19, 20, 27, 30:
		return int(gtfsrt.Alert_SIGNIFICANT_DELAYS)
	}
	if p >= 5 && p <= 38 {
		return int(gtfsrt.Alert_MODIFIED_SERVICE)
	}
	return -1
}

// A non-elevator alert: cause from the id prefix, effect from the Mercury
// priority of its informed entities, dropped when timetabled and the option
// is set, NYCT metadata appended when requested and present.
func Harness_C17_mercury() {
	K := vr.Param("K", 1)
	id := vr.OneOf("alert.id", "lmm:planned_work:12", "lmm:alert:34", "other:56")
	elev := vr.Param("ELEV", 0) == 1 // an elevator alert that also carries Mercury alert data: metadata is still appended on request
	if elev {
		id = "A27N#EL1"
	}
	a := &gtfsrt.Alert{}
	origCause, origEffect := gtfsrt.Alert_UNKNOWN_CAUSE, gtfsrt.Alert_UNKNOWN_EFFECT
	lite := vr.Param("LITE", 0) == 1 // several informed entities: everything else about the alert is fixed
	if !lite && vr.Bool("alert.has_cause") {
		origCause = gtfsrt.Alert_Cause(vr.Int("alert.cause", 1, 12))
		c := origCause
		a.Cause = &c
	}
	if !lite && vr.Bool("alert.has_effect") {
		origEffect = gtfsrt.Alert_Effect(vr.Int("alert.effect", 1, 11))
		c := origEffect
		a.Effect = &c
	}
	type ent struct {
		valid    bool
		priority int
	}
	var ents []ent
	for k := 0; k < K; k++ {
		stop := vr.Str(vr.T("sel", k, ".stop"))
		sel := &gtfsrt.EntitySelector{StopId: &stop}
		en := ent{}
		maxShape := 4
		if elev {
			maxShape = 0 // no per-selector Mercury data: the priority rules stay out of the picture
		} else if lite {
			maxShape = 1 // no Mercury data, or "xx:NN"
		}
		switch hConcretize(vr.Int(vr.T("sel", k, ".shape"), 0, maxShape), 0, maxShape) {
		case 0: // no Mercury data
		case 1: // "xx:NN"
			digits := vr.Chars(vr.T("sel", k, ".priority"), 2, "digit")
			so := vr.Chars(vr.T("sel", k, ".prefix"), 2, "alnum") + ":" + digits
			proto.SetExtension(sel, gtfsrt.E_MercuryEntitySelector, &gtfsrt.MercuryEntitySelector{SortOrder: &so})
			en = ent{true, hAtoi(digits)}
		case 2: // no colon
			so := vr.Chars(vr.T("sel", k, ".nocolon"), 4, "alnum")
			proto.SetExtension(sel, gtfsrt.E_MercuryEntitySelector, &gtfsrt.MercuryEntitySelector{SortOrder: &so})
		case 4: // two colons: "xx:y:NN" (the shape NYCT publishes, e.g. MTASBWY:G:30)
			digits := vr.Chars(vr.T("sel", k, ".priority2"), 2, "digit")
			so := vr.Chars(vr.T("sel", k, ".prefix2"), 2, "alnum") + ":" + vr.Chars(vr.T("sel", k, ".mid"), 1, "alnum") + ":" + digits
			proto.SetExtension(sel, gtfsrt.E_MercuryEntitySelector, &gtfsrt.MercuryEntitySelector{SortOrder: &so})
			en = ent{true, hAtoi(digits)}
		default: // colon, not a number
			so := "GTFS:ab"
			proto.SetExtension(sel, gtfsrt.E_MercuryEntitySelector, &gtfsrt.MercuryEntitySelector{SortOrder: &so})
		}
		a.InformedEntity = append(a.InformedEntity, sel)
		ents = append(ents, en)
	}
	hasMercury := !lite && vr.Bool("alert.has_mercury")
	created, updated := vr.U64("mercury.created_at"), vr.U64("mercury.updated_at")
	vr.Assume(created < 253402300800 && updated < 253402300800) // years up to 9999: beyond that json.Marshal of a time fails
	display := vr.U64("mercury.display_before_active")
	vr.Assume(display < 1<<31)
	period := vr.Str("mercury.period")
	if hasMercury {
		alertType := "Planned Work"
		ma := &gtfsrt.MercuryAlert{CreatedAt: &created, UpdatedAt: &updated, DisplayBeforeActive: &display, AlertType: &alertType}
		if vr.Bool("mercury.has_period") {
			ma.HumanReadableActivePeriod = &gtfsrt.TranslatedString{Translation: []*gtfsrt.TranslatedString_Translation{{Text: &period}}}
		} else {
			period = ""
		}
		proto.SetExtension(a, gtfsrt.E_MercuryAlert, ma)
	}
	desc := vr.Str("alert.description")
	hasDesc := !lite && vr.Bool("alert.has_description")
	if hasDesc {
		a.DescriptionText = &gtfsrt.TranslatedString{Translation: []*gtfsrt.TranslatedString_Translation{{Text: &desc}}}
	}
	skipOpt, metaOpt := vr.Bool("opt.skip_timetabled"), !lite && vr.Bool("opt.add_metadata")
	ver := "2.0"
	msg := &gtfsrt.FeedMessage{Header: &gtfsrt.FeedHeader{GtfsRealtimeVersion: &ver}, Entity: []*gtfsrt.FeedEntity{{Id: &id, Alert: a}}}
	r, err := gtfs.ParseRealtime(vr.Marshal(msg), &gtfs.ParseRealtimeOptions{Extension: nyctalerts.Extension(nyctalerts.ExtensionOpts{
		SkipTimetabledNoServiceAlerts: skipOpt, AddNyctMetadata: metaOpt})})
	vr.Assert("C17.returns", err == nil && r != nil)
	if r == nil {
		return
	}
	// reference
	wantCause := origCause
	switch id {
	case "lmm:planned_work:12":
		wantCause = gtfsrt.Alert_MAINTENANCE
	case "lmm:alert:34":
		wantCause = gtfsrt.Alert_TECHNICAL_PROBLEM
	}
	wantEffect := int(origEffect)
	dropped := false
	for _, en := range ents {
		if !en.valid || dropped {
			continue
		}
		if eff := hm_EffectOf(en.priority); eff >= 0 {
			wantEffect = eff
		}
		if skipOpt && (en.priority == 2 || en.priority == 3 || en.priority == 4) {
			dropped = true
		}
	}
	if dropped {
		vr.Assert("C17.skip.dropped", len(r.Alerts) == 0)
		return
	}
	vr.Assert("C17.skip.kept", len(r.Alerts) == 1)
	if len(r.Alerts) != 1 {
		return
	}
	g := r.Alerts[0]
	if !elev {
		vr.Assert("C17.cause", g.Cause == wantCause)
		vr.Assert("C17.effect", int(g.Effect) == wantEffect)
	} else {
		vr.Assert("C17.elevator.cause_effect", g.Cause == gtfs.Maintenance && g.Effect == gtfs.AccessibilityIssue)
	}
	var wantDesc []gtfs.AlertText
	if hasDesc {
		wantDesc = append(wantDesc, gtfs.AlertText{Text: desc})
	}
	if metaOpt && hasMercury {
		md := nyctalerts.Metadata{CreatedAt: time.Unix(int64(created), 0), UpdatedAt: time.Unix(int64(updated), 0),
			DisplayBeforeActive: time.Duration(display) * time.Second, HumanReadableActivePeriod: period}
		b, err := json.Marshal(&md)
		vr.Assume(err == nil)
		wantDesc = append(wantDesc, gtfs.AlertText{Text: string(b), Language: nyctalerts.MetadataLanguage})
	}
	vr.Assert("C17.metadata", vr.DeepEq(g.Description, wantDesc))
	if !elev {
		vr.Assert("C17.informed_kept", len(g.InformedEntities) == K)
	}
}

// Alerts carrying no NYCT data and no elevator id parse as with no extension.
func Harness_C17_passthrough() {
	msg := hPlainMsg()
	// an id with no '#' (so no elevator pattern) and no lmm prefix
	head := vr.Chars("alert.id.head", 3, "alnum")
	vr.Assume(head != "lmm")
	id := head + ":" + vr.Chars("alert.id.tail", 2, "alnum")
	msg.Entity[2].Id = &id
	if vr.Bool("alert.has_cause") {
		c := gtfsrt.Alert_Cause(vr.Int("alert.cause", 1, 12))
		msg.Entity[2].Alert.Cause = &c
	}
	with, err1 := gtfs.ParseRealtime(vr.Marshal(msg), &gtfs.ParseRealtimeOptions{Extension: nyctalerts.Extension(nyctalerts.ExtensionOpts{
		ElevatorAlertsDeduplicationPolicy: hPolicies[vr.Param("POLICY", 0)], ElevatorAlertsInformUsingStationIDs: vr.Bool("station_ids"),
		SkipTimetabledNoServiceAlerts: vr.Bool("skip"), AddNyctMetadata: vr.Bool("metadata")})})
	without, err2 := gtfs.ParseRealtime(vr.Marshal(msg), &gtfs.ParseRealtimeOptions{})
	vr.Assert("C17.returns", err1 == nil && err2 == nil && with != nil && without != nil)
	if with == nil || without == nil {
		return
	}
	vr.Assert("C17.passthrough", vr.And(vr.DeepEq(with.Alerts, without.Alerts), vr.DeepEq(with.Trips, without.Trips), vr.DeepEq(with.Vehicles, without.Vehicles)))
}
