//go:build verif

package journal

import (
	"github.com/jamespfennell/gtfs"
	vr "github.com/jamespfennell/gtfs/internal/verifrt"
	gtfsrt "github.com/jamespfennell/gtfs/proto"
)

func init() {
	vr.Register("Harness_C19_next", Harness_C19_next)
}

// A directory of n entries with symbolic names; each entry is a readable
// parseable feed, a sub-directory (unreadable), corrupt bytes or an empty
// file, at any position of the name order.
func Harness_C19_next() {
	N := vr.Param("N", 3)
	n := vr.Int("n", 0, N)
	var ents []vr.DirEntry
	var stamps []uint64
	for i := 0; i < n; i++ {
		name := vr.Str(vr.T("entry", i, ".name"))
		vr.Assume(name != "" && name != "." && name != "..")
		for j := range ents {
			vr.Assume(ents[j].Name != name)
		}
		kind := 0
		maxKind := 3
		if vr.Param("LINKS", 0) == 1 {
			maxKind = 4 // also symbolic links to readable files (which count as good files)
		}
		for k := 0; k < maxKind; k++ { // concrete kind per path
			if vr.Int(vr.T("entry", i, ".kind"), 0, maxKind) == k+1 {
				kind = k + 1
			}
		}
		stamp := vr.U64(vr.T("entry", i, ".stamp"))
		vr.Assume(stamp < 1<<62)
		version := "2.0"
		ents = append(ents, vr.DirEntry{Name: name, Kind: kind, Msg: &gtfsrt.FeedMessage{Header: &gtfsrt.FeedHeader{GtfsRealtimeVersion: &version, Timestamp: &stamp}}})
		stamps = append(stamps, stamp)
	}
	dir := vr.Dir(ents)
	src, err := NewDirectoryGtfsrtSource(dir)
	vr.Assert("C19.opens", err == nil && src != nil)
	if err != nil || src == nil {
		return
	}
	var got []*gtfs.Realtime
	for k := 0; k <= n+1; k++ {
		r := src.Next()
		if r == nil {
			break
		}
		got = append(got, r)
	}
	// expected: the good entries in ascending name order
	var good []int
	for i := range ents {
		if ents[i].Kind == 0 || ents[i].Kind == 4 {
			good = append(good, i)
		}
	}
	vr.Assert("C19.once", len(got) == len(good))
	vr.Assert("C19.ends", src.Next() == nil && src.Next() == nil)
	if len(got) != len(good) {
		return
	}
	for _, i := range good {
		rank := 0
		for _, j := range good {
			if ents[j].Name < ents[i].Name {
				rank++
			}
		}
		vr.Assert("C19.sequence", got[rank].CreatedAt.Unix() == int64(stamps[i]))
	}
}
