package main

// protobuf: proto.Unmarshal is a deep copy of the harness-built message (the
// wire codec is library code and outside the claim); extensions live in the
// message's extensionFields cell as an engine map keyed by descriptor identity.
// The generated getters are executed from SSA.

import (
	"go/types"
	"strings"
	"sync"

	"golang.org/x/tools/go/ssa"
)

type protoBlob struct {
	msg Ptr
	bad bool
	tag string
}

func (e *Exec) deepCopy(v Value, memo map[*Obj]*Obj, mmemo map[*MapObj]*MapObj) Value {
	switch x := v.(type) {
	case Ptr:
		if x.Obj == nil {
			return x
		}
		return Ptr{Obj: e.copyObj(x.Obj, memo, mmemo), Path: x.Path, NilCond: x.NilCond}
	case SliceV:
		if x.Arr == nil {
			return x
		}
		return SliceV{Arr: e.copyObj(x.Arr, memo, mmemo), Off: x.Off, Len: x.Len, Cap: x.Cap}
	case MapV:
		if x.M == nil {
			return x
		}
		if n, ok := mmemo[x.M]; ok {
			return MapV{M: n}
		}
		e.nextObj++
		n := &MapObj{ID: e.nextObj, KT: x.M.KT, VT: x.M.VT, Epoch: e.epoch}
		mmemo[x.M] = n
		for i := range x.M.Keys {
			n.Keys = append(n.Keys, e.deepCopy(x.M.Keys[i], memo, mmemo))
			n.Vals = append(n.Vals, e.deepCopy(x.M.Vals[i], memo, mmemo))
		}
		return MapV{M: n}
	case StructV:
		f := make([]Value, len(x.F))
		for i := range f {
			f[i] = e.deepCopy(x.F[i], memo, mmemo)
		}
		return StructV{F: f}
	case ArrayV:
		f := make([]Value, len(x.E))
		for i := range f {
			f[i] = e.deepCopy(x.E[i], memo, mmemo)
		}
		return ArrayV{E: f}
	case IfaceV:
		return IfaceV{T: x.T, V: e.deepCopy(x.V, memo, mmemo)}
	case TupleV:
		f := make(TupleV, len(x))
		for i := range f {
			f[i] = e.deepCopy(x[i], memo, mmemo)
		}
		return f
	}
	return v
}

func (e *Exec) copyObj(o *Obj, memo map[*Obj]*Obj, mmemo map[*MapObj]*MapObj) *Obj {
	if o.Aux != nil || strings.HasPrefix(o.Name, "opaque:") {
		return o // shared immutable library objects (locations, descriptors, regexps)
	}
	if n, ok := memo[o]; ok {
		return n
	}
	n := e.newObj(nil, o.Typ)
	memo[o] = n
	n.V = e.deepCopy(o.V, memo, mmemo)
	return n
}

// requiredMissing reports (forking on maybe-nil pointers) whether a proto2
// message lacks a field declared `required` — the condition under which the
// real proto.Unmarshal fails with "required field missing". The declarations
// are read from the generated struct tags of the current source.
var reqMemo sync.Map

// typeHasRequired: does a message type (transitively) declare a required field?
func typeHasRequired(t types.Type, depth int) bool {
	if depth > 8 {
		return true
	}
	key := typeKey(t)
	if v, ok := reqMemo.Load(key); ok {
		return v.(bool)
	}
	res := false
	switch u := t.Underlying().(type) {
	case *types.Pointer:
		res = typeHasRequired(u.Elem(), depth+1)
	case *types.Slice:
		res = typeHasRequired(u.Elem(), depth+1)
	case *types.Struct:
		for i := 0; i < u.NumFields() && !res; i++ {
			tag := u.Tag(i)
			if u.Field(i).Name() == "extensionFields" {
				res = true // extension messages are only known at run time
				break
			}
			if !strings.Contains(tag, "protobuf:") {
				continue
			}
			if strings.Contains(tag, ",req,") {
				res = true
				break
			}
			ft := u.Field(i).Type()
			if _, isB := ft.Underlying().(*types.Basic); isB {
				continue
			}
			if pt, ok := ft.Underlying().(*types.Pointer); ok {
				if _, isB := pt.Elem().Underlying().(*types.Basic); isB {
					continue
				}
			}
			res = typeHasRequired(ft, depth+1)
		}
	}
	reqMemo.Store(key, res)
	return res
}

func (e *Exec) requiredMissing(v Value, t types.Type, depth int) bool {
	if depth > 8 {
		return false
	}
	if ap, _ := e.pathAux["proto.allowPartial"].(bool); ap {
		return false // UnmarshalOptions{AllowPartial: true}: no required-field check
	}
	if !typeHasRequired(t, 0) {
		return false
	}
	switch x := v.(type) {
	case Ptr:
		if x.Obj == nil {
			return false
		}
		pt, ok := t.Underlying().(*types.Pointer)
		if !ok {
			return false
		}
		// look at the pointee first: whether the pointer is nil only matters if the pointee lacks something
		if !e.requiredMissing(getPath(x.Obj.V, x.Path), pt.Elem(), depth+1) {
			return false
		}
		if x.NilCond != nil && e.decide(x.NilCond) {
			return false
		}
		return true
	case StructV:
		st, ok := t.Underlying().(*types.Struct)
		if !ok {
			return false
		}
		for i := 0; i < st.NumFields(); i++ {
			tag := st.Tag(i)
			fv := x.F[i]
			if strings.Contains(tag, "protobuf:") && strings.Contains(tag, ",req,") {
				switch f := fv.(type) {
				case Ptr:
					if f.Obj == nil {
						return true
					}
					if f.NilCond != nil && e.decide(f.NilCond) {
						return true
					}
				}
			}
			if st.Field(i).Name() == "extensionFields" {
				if mv, ok := fv.(MapV); ok && mv.M != nil {
					for _, ev := range mv.M.Vals {
						if iv, ok := ev.(IfaceV); ok && iv.T != nil && e.requiredMissing(iv.V, iv.T, depth+1) {
							return true
						}
					}
				}
				continue
			}
			if !strings.Contains(tag, "protobuf:") {
				continue
			}
			if e.requiredMissing(fv, st.Field(i).Type(), depth+1) {
				return true
			}
		}
	case SliceV:
		sl, ok := t.Underlying().(*types.Slice)
		if !ok {
			return false
		}
		for i := 0; i < x.Len; i++ {
			if e.requiredMissing(getPath(x.Arr.V, []int{x.Off + i}), sl.Elem(), depth+1) {
				return true
			}
		}
	}
	return false
}

func extFieldIndex(t types.Type) int {
	st, ok := t.Underlying().(*types.Struct)
	if !ok {
		return -1
	}
	for i := 0; i < st.NumFields(); i++ {
		if st.Field(i).Name() == "extensionFields" {
			return i
		}
	}
	return -1
}

// extMap returns the extension map of the message behind a proto.Message interface value.
func (e *Exec) extMap(m Value, create bool) (*MapObj, bool) {
	iv, ok := m.(IfaceV)
	if !ok || iv.T == nil {
		return nil, false
	}
	p, ok := iv.V.(Ptr)
	if !ok || p.Obj == nil {
		return nil, false
	}
	pt, ok := iv.T.Underlying().(*types.Pointer)
	if !ok {
		return nil, false
	}
	idx := extFieldIndex(pt.Elem())
	if idx < 0 {
		return nil, false
	}
	fp := Ptr{Obj: p.Obj, Path: appendPath(p.Path, idx)}
	mv, _ := e.load(fp).(MapV)
	if mv.M == nil {
		if !create {
			return nil, true
		}
		e.nextObj++
		mv = MapV{M: &MapObj{ID: e.nextObj, Epoch: e.epoch}}
		e.store(fp, mv)
	}
	return mv.M, true
}

func extKey(v Value) Value {
	if iv, ok := v.(IfaceV); ok {
		return iv.V
	}
	return v
}

func init() {
	intrinsics["Marshal"] = func(e *Exec, fr *Frame, fn *ssa.Function, a []Value) Value {
		msg := a[0].(Ptr)
		// snapshot: later mutation of the harness message must not reach the bytes
		cp := e.deepCopy(msg, map[*Obj]*Obj{}, map[*MapObj]*MapObj{}).(Ptr)
		arr := e.newObj(ArrayV{E: []Value{e.tf.Int(0)}}, nil) // opaque non-empty content
		arr.Aux = &protoBlob{msg: cp}
		arr.Name = "bytes:feedmessage"
		return SliceV{Arr: arr, Len: 1, Cap: 1}
	}
	intrinsics["BadBytes"] = func(e *Exec, fr *Frame, fn *ssa.Function, a []Value) Value {
		arr := e.newObj(ArrayV{E: []Value{e.tf.Int(0)}}, nil) // opaque non-empty content
		arr.Aux = &protoBlob{bad: true}
		arr.Name = "bytes:garbage"
		return SliceV{Arr: arr, Len: 1, Cap: 1}
	}
	stubs["(google.golang.org/protobuf/proto.UnmarshalOptions).Unmarshal"] = func(e *Exec, fr *Frame, fn *ssa.Function, a []Value) Value {
		o := a[0].(StructV)
		st := fn.Signature.Recv().Type().Underlying().(*types.Struct)
		allowPartial := false
		for i := 0; i < st.NumFields(); i++ {
			switch st.Field(i).Name() {
			case "AllowPartial":
				t, ok := o.F[i].(*Term)
				if !ok || !(t.IsTrue() || t.IsFalse()) {
					e.unsupported("UnmarshalOptions with a symbolic AllowPartial")
				}
				allowPartial = t.IsTrue()
			case "Merge":
				if t, ok := o.F[i].(*Term); !ok || !t.IsFalse() {
					e.unsupported("UnmarshalOptions.Merge")
				}
			}
		}
		e.pathAux["proto.allowPartial"] = allowPartial
		defer delete(e.pathAux, "proto.allowPartial")
		return stubs["google.golang.org/protobuf/proto.Unmarshal"](e, fr, fn, a[1:])
	}
	stubs["google.golang.org/protobuf/proto.Unmarshal"] = func(e *Exec, fr *Frame, fn *ssa.Function, a []Value) Value {
		dst := a[1].(IfaceV)
		if cv, ok := a[0].(chunksV); ok {
			// the content of a bytes.Buffer filled from directory files
			var blobs []*protoBlob
			for _, c := range cv.cs {
				if c.blob == nil {
					e.unsupported("proto.Unmarshal of buffer content not produced by the harness")
				}
				blobs = append(blobs, c.blob)
			}
			if len(blobs) == 0 {
				return e.newError("proto: required field missing")
			}
			for _, b := range blobs {
				if b.bad {
					return e.newError("proto: cannot parse invalid wire-format data")
				}
			}
			if len(blobs) > 1 {
				e.unsupported("proto.Unmarshal of several concatenated valid messages (protobuf merge semantics are not modelled)")
			}
			if e.requiredMissing(blobs[0].msg, dst.T, 0) {
				return e.newError("proto: required field missing")
			}
			cp := e.deepCopy(blobs[0].msg, map[*Obj]*Obj{}, map[*MapObj]*MapObj{}).(Ptr)
			e.store(dst.V.(Ptr), getPath(cp.Obj.V, cp.Path))
			return IfaceV{}
		}
		b := a[0].(SliceV)
		if b.Arr == nil {
			// empty input is a valid empty message for proto3, but FeedMessage has a required header
			if ap, _ := e.pathAux["proto.allowPartial"].(bool); ap {
				return IfaceV{}
			}
			return e.newError("proto: required field missing")
		}
		if e.curFoot != nil {
			e.curFoot.read(Ptr{Obj: b.Arr})
		}
		blob, ok := b.Arr.Aux.(*protoBlob)
		if !ok {
			e.unsupported("proto.Unmarshal of bytes not produced by the harness (wire decoding is outside the claim)")
		}
		if blob.bad {
			return e.newError("proto: cannot parse invalid wire-format data")
		}
		if e.requiredMissing(blob.msg, dst.T, 0) {
			return e.newError("proto: required field missing")
		}
		cp := e.deepCopy(blob.msg, map[*Obj]*Obj{}, map[*MapObj]*MapObj{}).(Ptr)
		dp := dst.V.(Ptr)
		e.store(dp, getPath(cp.Obj.V, cp.Path))
		return IfaceV{}
	}
	stubs["google.golang.org/protobuf/proto.HasExtension"] = func(e *Exec, fr *Frame, fn *ssa.Function, a []Value) Value {
		m, ok := e.extMap(a[0], false)
		if !ok || m == nil {
			return e.tf.Bool(false)
		}
		_, found := e.mapGet(m, extKey(a[1]))
		return e.tf.Bool(found)
	}
	stubs["google.golang.org/protobuf/proto.GetExtension"] = func(e *Exec, fr *Frame, fn *ssa.Function, a []Value) Value {
		m, ok := e.extMap(a[0], false)
		if !ok || m == nil {
			return IfaceV{}
		}
		v, found := e.mapGet(m, extKey(a[1]))
		if !found {
			return IfaceV{}
		}
		return v
	}
	stubs["google.golang.org/protobuf/proto.SetExtension"] = func(e *Exec, fr *Frame, fn *ssa.Function, a []Value) Value {
		m, ok := e.extMap(a[0], true)
		if !ok {
			e.fail("panic", "panic:explicit", e.siteOf(fr), "proto.SetExtension on an invalid message", "")
		}
		e.mapSet(m, extKey(a[1]), a[2])
		return nil
	}
}

// protoMerge implements proto.Merge(dst, src) on the engine's message values:
// set scalar fields of src overwrite dst's, set sub-messages merge
// recursively, repeated fields append, extensions are copied over.
func (e *Exec) protoMerge(dp, sp Ptr, t types.Type, depth int) {
	if depth > 8 {
		e.unsupported("proto.Merge nesting")
	}
	st, ok := t.Underlying().(*types.Struct)
	if !ok {
		e.unsupported("proto.Merge of a non-struct message")
	}
	for i := 0; i < st.NumFields(); i++ {
		tag := st.Tag(i)
		fdp := Ptr{Obj: dp.Obj, Path: appendPath(dp.Path, i)}
		fsp := Ptr{Obj: sp.Obj, Path: appendPath(sp.Path, i)}
		if st.Field(i).Name() == "extensionFields" {
			if mv, ok := e.load(fsp).(MapV); ok && mv.M != nil && len(mv.M.Keys) > 0 {
				dm, _ := e.load(fdp).(MapV)
				if dm.M == nil {
					e.nextObj++
					dm = MapV{M: &MapObj{ID: e.nextObj, Epoch: e.epoch}}
					e.store(fdp, dm)
				}
				for k := range mv.M.Keys {
					e.mapSet(dm.M, mv.M.Keys[k], e.deepCopy(mv.M.Vals[k], map[*Obj]*Obj{}, map[*MapObj]*MapObj{}))
				}
			}
			continue
		}
		if !strings.Contains(tag, "protobuf:") {
			continue
		}
		sv := e.load(fsp)
		switch x := sv.(type) {
		case Ptr:
			if x.Obj == nil {
				continue
			}
			if x.NilCond != nil && e.decide(x.NilCond) {
				continue
			}
			pt, _ := st.Field(i).Type().Underlying().(*types.Pointer)
			if pt != nil {
				if _, isMsg := pt.Elem().Underlying().(*types.Struct); isMsg && !isTimeType(pt.Elem()) {
					dv, _ := e.load(fdp).(Ptr)
					if dv.Obj != nil && dv.NilCond != nil {
						if e.decide(dv.NilCond) {
							dv = Ptr{}
						} else {
							dv.NilCond = nil
						}
					}
					if dv.Obj != nil {
						e.protoMerge(dv, Ptr{Obj: x.Obj, Path: x.Path}, pt.Elem(), depth+1)
						continue
					}
				}
			}
			cp := e.deepCopy(Ptr{Obj: x.Obj, Path: x.Path}, map[*Obj]*Obj{}, map[*MapObj]*MapObj{})
			e.store(fdp, cp)
		case SliceV:
			if x.Len == 0 {
				continue
			}
			e.unsupported("proto.Merge of repeated or bytes fields")
		default:
			e.unsupported("proto.Merge of a proto3-style scalar field")
		}
	}
}

func init() {
	stubs["google.golang.org/protobuf/proto.Merge"] = func(e *Exec, fr *Frame, fn *ssa.Function, a []Value) Value {
		d, ok1 := a[0].(IfaceV)
		s, ok2 := a[1].(IfaceV)
		if !ok1 || !ok2 || d.T == nil || s.T == nil {
			e.unsupported("proto.Merge of nil messages")
		}
		dp, _ := d.V.(Ptr)
		sp, _ := s.V.(Ptr)
		if dp.Obj == nil || sp.Obj == nil {
			e.unsupported("proto.Merge of nil message pointers")
		}
		if sp.NilCond != nil || dp.NilCond != nil {
			e.unsupported("proto.Merge of maybe-nil message pointers")
		}
		pt, ok := d.T.Underlying().(*types.Pointer)
		if !ok || typeKey(d.T) != typeKey(s.T) {
			e.unsupported("proto.Merge of different message types")
		}
		e.protoMerge(dp, sp, pt.Elem(), 0)
		return nil
	}
}
