//go:build verif

package verifh

import (
	"github.com/jamespfennell/gtfs"
	"github.com/jamespfennell/gtfs/extensions/nyctalerts"
	"github.com/jamespfennell/gtfs/extensions/nycttrips"
	vr "github.com/jamespfennell/gtfs/internal/verifrt"
	gtfsrt "github.com/jamespfennell/gtfs/proto"
	"google.golang.org/protobuf/proto"
)

func init() {
	vr.Register("Harness_C18_realtime", Harness_C18_realtime)
	vr.Register("Harness_C18_static", Harness_C18_static)
}

// Two ParseRealtime calls over the same input bytes and the same options
// value (EXT: 0 no extension, 1 nycttrips, 2 nyctalerts): neither call may
// write a pre-existing memory cell the other reads or writes. The parser has
// no synchronisation, so this is exactly data-race freedom for every
// interleaving; natively the two calls run in goroutines under -race.
func Harness_C18_realtime() {
	opts := &gtfs.ParseRealtimeOptions{}
	var msgBytes []byte
	switch vr.Param("EXT", 0) {
	case 1:
		opts.Extension = nycttrips.Extension(nycttrips.ExtensionOpts{FilterStaleUnassignedTrips: vr.Bool("filter")})
		msgBytes = vr.Marshal(hNyctMsg())
	case 2:
		opts.Extension = nyctalerts.Extension(nyctalerts.ExtensionOpts{ElevatorAlertsDeduplicationPolicy: nyctalerts.DeduplicateInStation})
		msgBytes = vr.Marshal(hElevatorMsg("a"))
	default:
		msgBytes = vr.Marshal(hRealtimeMsg())
	}
	var ra, rb *gtfs.Realtime
	vr.Footprint("A", func() { ra, _ = gtfs.ParseRealtime(msgBytes, opts) })
	vr.Footprint("B", func() { rb, _ = gtfs.ParseRealtime(msgBytes, opts) })
	vr.Assert("C18.conflict.realtime", vr.ConflictFree("A", "B"))
	if ra == nil || rb == nil {
		return
	}
	// readers of results from different calls
	vr.Footprint("RA", func() { hReadRealtime(ra) })
	vr.Footprint("RB", func() { hReadRealtime(rb) })
	vr.Assert("C18.conflict.readers", vr.ConflictFree("RA", "RB") && vr.WritesNothingShared("RA"))
}

func hReadRealtime(r *gtfs.Realtime) {
	for i := range r.Trips {
		_ = r.Trips[i].GetVehicle()
		if vr.Param("HASH", 0) == 1 {
			r.Trips[i].Hash(&vr.Sink{}) // each reader hashes into a sink of its own
		}
	}
	for i := range r.Vehicles {
		_ = r.Vehicles[i].GetID()
		_ = r.Vehicles[i].GetTrip()
		if vr.Param("HASH", 0) == 1 {
			r.Vehicles[i].Hash(&vr.Sink{})
		}
	}
}

func Harness_C18_static() {
	feed := hStaticFeed()
	if vr.Param("MISSING", 0) == 1 { // the error path: a required member is absent
		var kept []vr.File
		for _, f := range feed {
			if f.Name != "stop_times.txt" {
				kept = append(kept, f)
			}
		}
		feed = kept
	}
	b := vr.Archive(feed)
	opts := gtfs.ParseStaticOptions{InheritWheelchairBoarding: true}
	var ra, rb *gtfs.Static
	vr.Footprint("A", func() { ra, _ = gtfs.ParseStatic(b, opts) })
	vr.Footprint("B", func() { rb, _ = gtfs.ParseStatic(b, opts) })
	vr.Assert("C18.conflict.static", vr.ConflictFree("A", "B"))
	if ra == nil || rb == nil {
		return
	}
	vr.Footprint("RA", func() {
		for i := range ra.Stops {
			_ = ra.Stops[i].Root()
		}
	})
	vr.Footprint("RB", func() {
		for i := range rb.Stops {
			_ = rb.Stops[i].Root()
		}
	})
	vr.Assert("C18.conflict.readers", vr.ConflictFree("RA", "RB") && vr.WritesNothingShared("RA"))
}

// hNyctMsg: a trip update and the vehicle position of the same trip, both
// carrying the NYCT trip descriptor and an NYCT-format trip id, plus a plain entity.
func hNyctMsg() *gtfsrt.FeedMessage {
	// concrete ids throughout: footprints do not depend on the values, and sorting symbolic ids among concrete ones only multiplies paths
	ver, plainTrip, plainVeh := "2.0", "plain-trip", "plain-vehicle"
	msg := &gtfsrt.FeedMessage{Header: &gtfsrt.FeedHeader{GtfsRealtimeVersion: &ver}, Entity: []*gtfsrt.FeedEntity{
		{Id: hStr("p1"), Vehicle: &gtfsrt.VehiclePosition{Vehicle: &gtfsrt.VehicleDescriptor{Id: &plainVeh}, Trip: &gtfsrt.TripDescriptor{TripId: &plainTrip}}}}}
	tid := "012345_A..N" // the values do not matter for footprints: a concrete NYCT-format id keeps the queries small
	route := "M"
	train := "T"
	assigned := true
	mk := func() *gtfsrt.TripDescriptor {
		id := tid
		td := &gtfsrt.TripDescriptor{TripId: &id, RouteId: &route}
		proto.SetExtension(td, gtfsrt.E_NyctTripDescriptor, &gtfsrt.NyctTripDescriptor{TrainId: &train, IsAssigned: &assigned})
		return td
	}
	sid := "M11N"
	stu := &gtfsrt.TripUpdate_StopTimeUpdate{StopId: &sid}
	track := "1"
	proto.SetExtension(stu, gtfsrt.E_NyctStopTimeUpdate, &gtfsrt.NyctStopTimeUpdate{ActualTrack: &track})
	msg.Entity = append(msg.Entity,
		&gtfsrt.FeedEntity{Id: hStr("n1"), TripUpdate: &gtfsrt.TripUpdate{Trip: mk(), StopTimeUpdate: []*gtfsrt.TripUpdate_StopTimeUpdate{stu}}},
		&gtfsrt.FeedEntity{Id: hStr("n2"), Vehicle: &gtfsrt.VehiclePosition{Trip: mk()}})
	// the extension's diagnostic paths: an assigned trip without train id, and entities that already carry a vehicle descriptor
	tid2, fv := "012346_A..S", "feed-vehicle"
	noTrain := &gtfsrt.TripDescriptor{TripId: &tid2, RouteId: &route}
	proto.SetExtension(noTrain, gtfsrt.E_NyctTripDescriptor, &gtfsrt.NyctTripDescriptor{IsAssigned: &assigned})
	tid3 := "012347_A..S"
	withTrain := func() *gtfsrt.TripDescriptor {
		id := tid3
		td := &gtfsrt.TripDescriptor{TripId: &id, RouteId: &route}
		proto.SetExtension(td, gtfsrt.E_NyctTripDescriptor, &gtfsrt.NyctTripDescriptor{TrainId: &train, IsAssigned: &assigned})
		return td
	}
	msg.Entity = append(msg.Entity,
		&gtfsrt.FeedEntity{Id: hStr("n3"), TripUpdate: &gtfsrt.TripUpdate{Trip: noTrain}},
		&gtfsrt.FeedEntity{Id: hStr("n4"), TripUpdate: &gtfsrt.TripUpdate{Trip: withTrain(), Vehicle: &gtfsrt.VehicleDescriptor{Id: &fv}}},
		&gtfsrt.FeedEntity{Id: hStr("n5"), Vehicle: &gtfsrt.VehiclePosition{Trip: withTrain(), Vehicle: &gtfsrt.VehicleDescriptor{Id: &fv}}})
	return msg
}
