//go:build verif

package journal

import (
	"strconv"
	"time"

	"github.com/jamespfennell/gtfs"
	vr "github.com/jamespfennell/gtfs/internal/verifrt"
)

func init() {
	vr.Register("Harness_C20_export", Harness_C20_export)
}

func hUnixStr(t time.Time) string { return strconv.FormatInt(t.Unix(), 10) }

func hOptUnixStr(t *time.Time) string {
	if t == nil {
		return ""
	}
	return hUnixStr(*t)
}

func hOptS(s *string) string {
	if s == nil {
		return ""
	}
	return *s
}

func hRowEq(row, want []string) bool {
	if len(row) != len(want) {
		return false
	}
	ok := true
	for i := range row {
		ok = vr.And(ok, row[i] == want[i])
	}
	return ok
}

// A journal of T trips with S stop times each (every presence pattern of
// track / arrival / departure / marked-past, every direction value) is
// exported; the two tables read back cell by cell under their headers.
func Harness_C20_export() {
	T := vr.Param("T", 1)
	S := vr.Param("S", 1)
	j := &Journal{}
	for i := 0; i < T; i++ {
		t := func(c string) string { return vr.T("trip", i, ".", c) }
		trip := Trip{TripUID: vr.Str(t("uid")), TripID: vr.Str(t("id")), RouteID: vr.Str(t("route")), DirectionID: gtfs.DirectionID(vr.Int(t("direction"), 0, 2)),
			StartTime: vr.Unix(vr.I64(t("start")), time.UTC), VehicleID: vr.Str(t("vehicle")), IsAssigned: vr.Bool(t("assigned")),
			LastObserved: vr.Unix(vr.I64(t("last_observed")), time.UTC), MarkedPast: hOptTime(t("marked_past")),
			NumUpdates: vr.Int(t("num_updates"), 0, 1000000), NumScheduleChanges: vr.Int(t("num_changes"), -1, 1000000), NumScheduleRewrites: vr.Int(t("num_rewrites"), -1, 1000000)}
		for k := 0; k < S; k++ {
			if vr.Param("ALT", 0) == 1 && i%2 == 0 {
				break // ALT: trips 0, 2, ... have no stop times, the others S
			}
			s := func(c string) string { return vr.T("trip", i, ".stop", k, ".", c) }
			trip.StopTimes = append(trip.StopTimes, StopTime{StopID: vr.Str(s("id")), ArrivalTime: hOptTime(s("arrival")), DepartureTime: hOptTime(s("departure")),
				Track: hOptStr(s("track")), LastObserved: vr.Unix(vr.I64(s("last_observed")), time.UTC), MarkedPast: hOptTime(s("marked_past"))})
		}
		j.Trips = append(j.Trips, trip)
	}
	before := append([]Trip(nil), j.Trips...)
	exp, err := j.ExportToCsv()
	vr.Assert("C20.returns", err == nil && exp != nil)
	if exp == nil {
		return
	}
	vr.Assert("C20.unmodified", vr.DeepEq(before, j.Trips))

	trips := vr.SplitCSV(exp.TripsCsv)
	vr.Assert("C20.trips.rows", len(trips) == 1+T)
	if len(trips) != 1+T {
		return
	}
	vr.Assert("C20.trips.header", hRowEq(trips[0], []string{"trip_uid", "trip_id", "route_id", "direction_id", "start_time", "vehicle_id", "last_observed", "marked_past", "num_updates", "num_schedule_changes", "num_schedule_rewrites"}))
	for i := 0; i < T; i++ {
		t := j.Trips[i]
		dir := ""
		if t.DirectionID == gtfs.DirectionID_False {
			dir = "0"
		} else if t.DirectionID == gtfs.DirectionID_True {
			dir = "1"
		}
		want := []string{t.TripUID, t.TripID, t.RouteID, dir, hUnixStr(t.StartTime), t.VehicleID, hUnixStr(t.LastObserved), hOptUnixStr(t.MarkedPast),
			strconv.Itoa(t.NumUpdates), strconv.Itoa(t.NumScheduleChanges), strconv.Itoa(t.NumScheduleRewrites)}
		vr.Assert("C20.trips.cells", hRowEq(trips[1+i], want))
	}
	sts := vr.SplitCSV(exp.StopTimesCsv)
	total := 0
	for i := range j.Trips {
		total += len(j.Trips[i].StopTimes)
	}
	vr.Assert("C20.stop_times.rows", len(sts) == 1+total)
	if len(sts) != 1+total {
		return
	}
	vr.Assert("C20.stop_times.header", hRowEq(sts[0], []string{"trip_uid", "stop_id", "track", "arrival_time", "departure_time", "last_observed", "marked_past"}))
	n := 1
	for i := 0; i < T; i++ {
		for k := range j.Trips[i].StopTimes {
			st := j.Trips[i].StopTimes[k]
			want := []string{j.Trips[i].TripUID, st.StopID, hOptS(st.Track), hOptUnixStr(st.ArrivalTime), hOptUnixStr(st.DepartureTime), hUnixStr(st.LastObserved), hOptUnixStr(st.MarkedPast)}
			vr.Assert("C20.stop_times.cells", hRowEq(sts[n], want))
			n++
		}
	}
}
