//go:build verif

package gtfs

import (
	"time"

	vr "github.com/jamespfennell/gtfs/internal/verifrt"
)

func init() {
	vr.Register("Harness_C10_defaults", Harness_C10_defaults)
	vr.Register("Harness_C10_onesided", Harness_C10_onesided)
	vr.Register("Harness_C10_inherit", Harness_C10_inherit)
}

type hDefCol struct {
	file   string
	col    string
	values []string // explicit non-default values for the mixture
	get    func(s *Static, row int) any
	def    any
}

var hDefCols = []hDefCol{
	{"routes.txt", "route_color", []string{"00FF00"}, func(s *Static, i int) any { return s.Routes[i].Color }, "FFFFFF"},
	{"routes.txt", "route_text_color", []string{"FFFFFF"}, func(s *Static, i int) any { return s.Routes[i].TextColor }, "000000"},
	{"routes.txt", "continuous_pickup", []string{"0", "2", "3"}, func(s *Static, i int) any { return s.Routes[i].ContinuousPickup }, PickupDropOffPolicy_No},
	{"routes.txt", "continuous_drop_off", []string{"0", "2", "3"}, func(s *Static, i int) any { return s.Routes[i].ContinuousDropOff }, PickupDropOffPolicy_No},
	{"stops.txt", "wheelchair_boarding", []string{"1", "2"}, func(s *Static, i int) any { return s.Stops[i].WheelchairBoarding }, WheelchairBoarding_NotSpecified},
	{"stops.txt", "location_type", []string{"1", "2", "3", "4"}, func(s *Static, i int) any { return s.Stops[i].Type }, StopType_Stop},
	{"trips.txt", "direction_id", []string{"0", "1"}, func(s *Static, i int) any { return s.Trips[i].DirectionId }, DirectionID_Unspecified},
	{"trips.txt", "wheelchair_accessible", []string{"1", "2"}, func(s *Static, i int) any { return s.Trips[i].WheelchairAccessible }, WheelchairBoarding_NotSpecified},
	{"trips.txt", "bikes_allowed", []string{"1", "2"}, func(s *Static, i int) any { return s.Trips[i].BikesAllowed }, BikesAllowed_NotSpecified},
	{"transfers.txt", "transfer_type", []string{"1", "2", "3"}, func(s *Static, i int) any { return s.Transfers[i].Type }, TransferType_Recommended},
	{"frequencies.txt", "exact_times", []string{"1"}, func(s *Static, i int) any { return s.Trips[0].Frequencies[i].ExactTimes }, FrequencyBased},
	{"stop_times.txt", "pickup_type", []string{"1", "2", "3"}, func(s *Static, i int) any { return s.Trips[0].StopTimes[i].PickupType }, PickupDropOffPolicy_Yes},
	{"stop_times.txt", "drop_off_type", []string{"1", "2", "3"}, func(s *Static, i int) any { return s.Trips[0].StopTimes[i].DropOffType }, PickupDropOffPolicy_Yes},
	{"stop_times.txt", "continuous_pickup", []string{"0", "2", "3"}, func(s *Static, i int) any { return s.Trips[0].StopTimes[i].ContinuousPickup }, PickupDropOffPolicy_No},
	{"stop_times.txt", "continuous_drop_off", []string{"0", "2", "3"}, func(s *Static, i int) any { return s.Trips[0].StopTimes[i].ContinuousDropOff }, PickupDropOffPolicy_No},
	{"stop_times.txt", "timepoint", []string{"0"}, func(s *Static, i int) any { return s.Trips[0].StopTimes[i].ExactTimes }, true},
}

// two-row tables for the files that carry default-bearing optional columns
func hC10Base() map[string]vr.File {
	f := hBase()
	f["routes.txt"] = vr.File{Name: "routes.txt", Header: []string{"route_id", "agency_id", "route_type"}, Rows: [][]string{{"r1", "ag", "1"}, {"r2", "ag", "3"}}}
	f["trips.txt"] = vr.File{Name: "trips.txt", Header: []string{"route_id", "service_id", "trip_id"}, Rows: [][]string{{"r1", "sv1", "t1"}, {"r2", "sv1", "t2"}}}
	f["transfers.txt"] = vr.File{Name: "transfers.txt", Header: []string{"from_stop_id", "to_stop_id", "min_transfer_time"}, Rows: [][]string{{"s1", "s2", "120"}, {"s2", "s1", ""}}}
	f["frequencies.txt"] = vr.File{Name: "frequencies.txt", Header: []string{"trip_id", "start_time", "end_time", "headway_secs"}, Rows: [][]string{{"t1", "06:00:00", "07:00:00", "600"}, {"t1", "07:00:00", "08:00:00", "300"}}}
	f["stop_times.txt"] = vr.File{Name: "stop_times.txt", Header: []string{"trip_id", "arrival_time", "departure_time", "stop_id", "stop_sequence"}, Rows: [][]string{{"t1", "08:00:00", "08:00:30", "s1", "1"}, {"t1", "08:10:00", "08:10:30", "s2", "2"}}}
	return f
}

func hWithColumn(f vr.File, col string, cells []string) vr.File {
	out := vr.File{Name: f.Name, Header: append(append([]string{}, f.Header...), col)}
	for i, r := range f.Rows {
		out.Rows = append(out.Rows, append(append([]string{}, r...), cells[i]))
	}
	return out
}

// For the column selected by COL: the column absent, present with blank
// cells, and a mixture (one blank cell, one explicit value) are parsed; blank
// and absent must agree with each other and with the GTFS default.
func Harness_C10_defaults() {
	c := hDefCols[vr.Param("COL", 0)]
	opts := ParseStaticOptions{InheritWheelchairBoarding: vr.Bool("inherit")}
	files := hC10Base()
	if c.file != "routes.txt" {
		// "nothing else": the routes carry explicit non-default continuous pickup / drop-off values, which no
		// stop time or trip inherits
		files["routes.txt"] = vr.File{Name: "routes.txt", Header: []string{"route_id", "agency_id", "route_type", "continuous_pickup", "continuous_drop_off"},
			Rows: [][]string{{"r1", "ag", "1", "0", "2"}, {"r2", "ag", "3", "2", "3"}}}
	}
	absent := hParse(files, opts)
	base := files[c.file]
	files[c.file] = hWithColumn(base, c.col, []string{"", ""})
	blank := hParse(files, opts)
	explicit := vr.OneOf("explicit", c.values...)
	blankFirst := vr.Bool("mixture.blank_first")
	cells := []string{"", explicit}
	if !blankFirst {
		cells = []string{explicit, ""}
	}
	files[c.file] = hWithColumn(base, c.col, cells)
	mixed := hParse(files, opts)
	if absent == nil || blank == nil || mixed == nil {
		return
	}
	vr.Assert("C10.absent_eq_blank", vr.And(vr.DeepEq(absent.Routes, blank.Routes), vr.DeepEq(absent.Stops, blank.Stops), vr.DeepEq(absent.Trips, blank.Trips),
		vr.DeepEq(absent.Transfers, blank.Transfers)))
	for i := 0; i < 2; i++ {
		vr.Assert("C10.default.absent", vr.DeepEq(c.get(absent, i), c.def))
		vr.Assert("C10.default.blank", vr.DeepEq(c.get(blank, i), c.def))
	}
	bi := 0
	if !blankFirst {
		bi = 1
	}
	vr.Assert("C10.default.mixture", vr.DeepEq(c.get(mixed, bi), c.def))
	vr.Assert("C10.mixture.explicit_differs", !vr.DeepEq(c.get(mixed, 1-bi), c.def))
}

// A stop time giving only one of arrival and departure: the other takes the same value
// (the missing one is a blank cell, or the whole column is absent).
func Harness_C10_onesided() {
	hh, mm, ss := vr.Chars("time.hh", 2, "digit"), vr.Chars("time.mm", 2, "digit"), vr.Chars("time.ss", 2, "digit")
	t := hh + ":" + mm + ":" + ss
	want := time.Duration((hDig2(hh)*60+hDig2(mm))*60+hDig2(ss)) * time.Second
	files := hBase()
	var hdr []string
	var row []string
	switch vr.Int("shape", 0, 3) {
	case 0: // arrival only, departure blank
		hdr, row = []string{"trip_id", "arrival_time", "departure_time", "stop_id", "stop_sequence"}, []string{"t1", t, "", "s1", "1"}
	case 1: // departure only, arrival blank
		hdr, row = []string{"trip_id", "arrival_time", "departure_time", "stop_id", "stop_sequence"}, []string{"t1", "", t, "s1", "1"}
	case 2: // arrival only, departure column absent
		hdr, row = []string{"trip_id", "arrival_time", "stop_id", "stop_sequence"}, []string{"t1", t, "s1", "1"}
	default: // departure only, arrival column absent
		hdr, row = []string{"trip_id", "departure_time", "stop_id", "stop_sequence"}, []string{"t1", t, "s1", "1"}
	}
	files["stop_times.txt"] = vr.File{Name: "stop_times.txt", Header: hdr, Rows: [][]string{row}}
	r := hParse(files, ParseStaticOptions{})
	if r == nil {
		return
	}
	vr.Assert("C10.onesided.kept", len(r.Trips) == 1 && len(r.Trips[0].StopTimes) == 1)
	if len(r.Trips) != 1 || len(r.Trips[0].StopTimes) != 1 {
		return
	}
	st := r.Trips[0].StopTimes[0]
	vr.Assert("C10.onesided.arrival", st.ArrivalTime == want)
	vr.Assert("C10.onesided.departure", st.DepartureTime == want)
	// no timepoint column: times are exact, filled in or not
	vr.Assert("C10.onesided.timepoint_default", st.ExactTimes)
}

// Wheelchair-boarding inheritance: a child whose own value is unspecified
// takes its parent station's value; nothing else changes.
func Harness_C10_inherit() {
	files := hBase()
	wbStation := vr.OneOf("station.wb", "", "0", "1", "2")
	wbChild := vr.OneOf("child.wb", "", "0", "1", "2")
	parentType := vr.OneOf("parent.type", "1", "0", "")
	childType := vr.OneOf("child.type", "0", "", "2", "3", "4") // every kind of stop that can have a parent station
	files["stops.txt"] = vr.File{Name: "stops.txt", Header: []string{"stop_id", "stop_name", "location_type", "parent_station", "wheelchair_boarding"},
		Rows: [][]string{{"s1", "child", childType, "st", wbChild}, {"st", "station", parentType, "", wbStation}, {"s2", "lone", "0", "", "1"}}}
	off := hParse(files, ParseStaticOptions{InheritWheelchairBoarding: false})
	on := hParse(files, ParseStaticOptions{InheritWheelchairBoarding: true})
	if off == nil || on == nil || len(off.Stops) != 3 || len(on.Stops) != 3 {
		return
	}
	wantChild := off.Stops[0].WheelchairBoarding
	if parentType == "1" && off.Stops[0].WheelchairBoarding == WheelchairBoarding_NotSpecified {
		wantChild = off.Stops[1].WheelchairBoarding
	}
	vr.Assert("C10.inherit.value", on.Stops[0].WheelchairBoarding == wantChild)
	// nothing else changes
	patched := on.Stops[0].WheelchairBoarding
	on.Stops[0].WheelchairBoarding = off.Stops[0].WheelchairBoarding
	vr.Assert("C10.inherit.nothing_else", vr.And(vr.DeepEq(on.Stops, off.Stops), vr.DeepEq(on.Trips, off.Trips), vr.DeepEq(on.Routes, off.Routes)))
	on.Stops[0].WheelchairBoarding = patched
}
