package main

// sync.Pool: Get returns an object put earlier on this path (most recent first) or the result of New.
// The pool itself is synchronised; what can race is an object that is used after it was put back:
// Put marks it released, Get un-marks it (see footprint.read/write).

import (
	"go/types"

	"golang.org/x/tools/go/ssa"
)

func (e *Exec) poolKey(p Ptr) string { return "pool:" + e.bufKey(p) }

func init() {
	stubs["(*sync.Pool).Get"] = func(e *Exec, fr *Frame, fn *ssa.Function, a []Value) Value {
		p := a[0].(Ptr)
		key := e.poolKey(p)
		items, _ := e.pathAux[key].([]Value)
		if n := len(items); n > 0 {
			it := items[n-1]
			e.pathAux[key] = append([]Value{}, items[:n-1]...)
			if iv, ok := it.(IfaceV); ok {
				if ip, ok := iv.V.(Ptr); ok && ip.Obj != nil {
					ip.Obj.Released = false
				}
			}
			return it
		}
		st := p.Obj.Typ
		if pp := getPath(p.Obj.V, p.Path); pp != nil {
			if sv, ok := pp.(StructV); ok {
				if s, ok := st.Underlying().(*types.Struct); ok {
					for i := 0; i < s.NumFields(); i++ {
						if s.Field(i).Name() == "New" {
							if fv, ok := sv.F[i].(FuncV); ok && (fv.Fn != nil || fv.Stub != "") {
								return e.callFuncV(fr, nil, fv, nil)
							}
						}
					}
				}
			}
		}
		return IfaceV{}
	}
	stubs["(*sync.Pool).Put"] = func(e *Exec, fr *Frame, fn *ssa.Function, a []Value) Value {
		p := a[0].(Ptr)
		key := e.poolKey(p)
		items, _ := e.pathAux[key].([]Value)
		e.pathAux[key] = append(append([]Value{}, items...), a[1])
		if iv, ok := a[1].(IfaceV); ok {
			if ip, ok := iv.V.(Ptr); ok && ip.Obj != nil {
				ip.Obj.Released = true
			}
		}
		return nil
	}
}
