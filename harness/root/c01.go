//go:build verif

package gtfs

import (
	"strconv"
	"strings"
	"time"

	vr "github.com/jamespfennell/gtfs/internal/verifrt"
)

func init() {
	vr.Register("Harness_C01_agency", Harness_C01_agency)
	vr.Register("Harness_C01_routes", Harness_C01_routes)
	vr.Register("Harness_C01_stops", Harness_C01_stops)
	vr.Register("Harness_C01_transfers", Harness_C01_transfers)
	vr.Register("Harness_C01_trips", Harness_C01_trips)
	vr.Register("Harness_C01_frequencies", Harness_C01_frequencies)
	vr.Register("Harness_C01_stop_times", Harness_C01_stop_times)
	vr.Register("Harness_C01_shapes", Harness_C01_shapes)
	vr.Register("Harness_C01_calendar", Harness_C01_calendar)
}

// hPresent re-presents a table: ORDER 0 keeps the column order; ORDER 1
// reverses it, adds an unknown column with arbitrary cells and a BOM; either
// way the archive also carries an unknown extra member.
func hPresent(files map[string]vr.File, name string, hdr []string, rows [][]string) {
	f := vr.File{Name: name, Header: hdr, Rows: rows}
	if vr.Param("ORDER", 0) == 1 {
		n := len(hdr)
		nh := make([]string, 0, n+1)
		for i := n - 1; i >= 0; i-- {
			nh = append(nh, hdr[i])
		}
		nh = append(nh[:n/2], append([]string{"zzz_unknown_column"}, nh[n/2:]...)...)
		var nr [][]string
		for ri, r := range rows {
			row := make([]string, 0, n+1)
			for i := n - 1; i >= 0; i-- {
				row = append(row, r[i])
			}
			row = append(row[:n/2], append([]string{vr.Str(vr.T("extra.r", ri))}, row[n/2:]...)...)
			nr = append(nr, row)
		}
		f = vr.File{Name: name, Header: nh, Rows: nr, BOM: vr.Bool("bom"), QuotedHeader: vr.Bool("quoted_header")}
	}
	files[name] = f
	files["zzz_unknown.txt"] = vr.File{Name: "zzz_unknown.txt", Header: []string{"a"}, Rows: [][]string{{"b"}}}
	// an unsupported member in a sub-folder whose base name is that of the file under test (an empty stale copy)
	files["old/"+name] = vr.File{Name: "old/" + name, Header: hdr}
}

func hArchiveAll(files map[string]vr.File) []byte {
	var fs []vr.File
	if f, ok := files["zzz_unknown.txt"]; ok {
		fs = append(fs, f)
	}
	for i := len(hFileOrder) - 1; i >= 0; i-- { // members in reverse of the parse order
		if f, ok := files[hFileOrder[i]]; ok {
			fs = append(fs, f)
		}
	}
	for i := range hFileOrder { // sub-folder members last
		if f, ok := files["old/"+hFileOrder[i]]; ok {
			fs = append(fs, f)
		}
	}
	return vr.Archive(fs)
}

func hParseAll(files map[string]vr.File) *Static {
	r, err := ParseStatic(hArchiveAll(files), ParseStaticOptions{})
	vr.Assert("C01.returns", err == nil && r != nil)
	if err != nil {
		return nil
	}
	return r
}

func hUniqueIDs(ids []string) {
	for i := range ids {
		vr.Assume(ids[i] != "")
		for j := i + 1; j < len(ids); j++ {
			vr.Assume(ids[i] != ids[j])
		}
	}
}

type hTime struct {
	cell string
	secs int
}

// hTimeCell: H:MM:SS, HH:MM:SS or HHH:MM:SS with symbolic digits (hours past 24 included).
func hTimeCell(tag string) hTime {
	w := hConcretize(vr.Int(tag+".hwidth", 1, 3), 1, 3)
	hh, mm, ss := vr.Chars(tag+".h", w, "digit"), vr.Chars(tag+".m", 2, "digit"), vr.Chars(tag+".s", 2, "digit")
	return hTime{cell: hh + ":" + mm + ":" + ss, secs: (hAtoi(hh)*60+hAtoi(mm))*60 + hAtoi(ss)}
}

func hDecimal(tag string) (string, *float64) {
	c := vr.OneOf(tag, "40.5", "-73.25", "1e2", " 12.125 ", "0")
	f, err := strconv.ParseFloat(strings.TrimSpace(c), 64)
	vr.Assume(err == nil)
	return c, &f
}

func hIntCell(tag string, width int) (string, int) {
	neg := vr.Bool(tag + ".neg")
	d := vr.Chars(tag, width, "digit")
	if neg {
		return "-" + d, -hAtoi(d)
	}
	return d, hAtoi(d)
}

// hEnumCell is a one-digit enum cell 0..max with a symbolic digit (no fork).
func hEnumCell(tag string, max int) string {
	c := vr.Chars(tag, 1, "digit")
	vr.Assume(int(c[0]-'0') <= max)
	return c
}

func hDecimalN(tag string, n int) (string, *float64) {
	opts := []string{"40.5", "-73.25", "1e2", " 12.125 ", "0"}[:n]
	c := vr.OneOf(tag, opts...)
	f, err := strconv.ParseFloat(strings.TrimSpace(c), 64)
	vr.Assume(err == nil)
	return c, &f
}

func hPolicy(c string) PickupDropOffPolicy { return PickupDropOffPolicy(c[0] - '0') }

func Harness_C01_agency() {
	R := vr.Param("R", 2)
	hdr := []string{"agency_id", "agency_name", "agency_url", "agency_timezone", "agency_lang", "agency_phone", "agency_fare_url", "agency_email"}
	var rows [][]string
	var ids []string
	for i := 0; i < R; i++ {
		row := []string{vr.Str(vr.T("agency.r", i, ".id")), vr.Str(vr.T("agency.r", i, ".name")), vr.Str(vr.T("agency.r", i, ".url")), vr.OneOf(vr.T("agency.r", i, ".tz"), "America/New_York", "UTC"),
			vr.Str(vr.T("agency.r", i, ".lang")), vr.Str(vr.T("agency.r", i, ".phone")), vr.Str(vr.T("agency.r", i, ".fare")), vr.Str(vr.T("agency.r", i, ".email"))}
		vr.Assume(row[1] != "" && row[2] != "")
		ids = append(ids, row[0])
		rows = append(rows, row)
	}
	hUniqueIDs(ids)
	files := hBase()
	hPresent(files, "agency.txt", hdr, rows)
	files["routes.txt"] = vr.File{Name: "routes.txt", Header: []string{"route_id", "agency_id", "route_type"}, Rows: [][]string{}}
	files["trips.txt"] = vr.File{Name: "trips.txt", Header: []string{"route_id", "service_id", "trip_id"}, Rows: [][]string{}}
	files["stop_times.txt"] = vr.File{Name: "stop_times.txt", Header: []string{"trip_id", "stop_id", "stop_sequence"}, Rows: [][]string{}}
	r := hParseAll(files)
	if r == nil {
		return
	}
	vr.Assert("C01.agency.count", len(r.Agencies) == R)
	if len(r.Agencies) != R {
		return
	}
	for i := 0; i < R; i++ {
		w := Agency{Id: rows[i][0], Name: rows[i][1], Url: rows[i][2], Timezone: rows[i][3], Language: rows[i][4], Phone: rows[i][5], FareUrl: rows[i][6], Email: rows[i][7]}
		vr.Assert("C01.agency.fields", vr.DeepEq(r.Agencies[i], w))
	}
}

func Harness_C01_routes() {
	R := vr.Param("R", 1)
	hdr := []string{"route_id", "agency_id", "route_short_name", "route_long_name", "route_desc", "route_type", "route_url", "route_color", "route_text_color", "route_sort_order", "continuous_pickup", "continuous_drop_off"}
	var rows [][]string
	var ids []string
	var sorts []int
	for i := 0; i < R; i++ {
		so, sov := hIntCell(vr.T("routes.r", i, ".sort"), 2)
		row := []string{vr.Str(vr.T("routes.r", i, ".id")), vr.OneOf(vr.T("routes.r", i, ".agency"), "ag", "ag2"), vr.Str(vr.T("routes.r", i, ".short")), vr.Str(vr.T("routes.r", i, ".long")),
			vr.Str(vr.T("routes.r", i, ".desc")), vr.OneOf(vr.T("routes.r", i, ".type"), "0", "3", "7", "11", "12"), vr.Str(vr.T("routes.r", i, ".url")), vr.Str(vr.T("routes.r", i, ".color")),
			vr.Str(vr.T("routes.r", i, ".textcolor")), so, hEnumCell(vr.T("routes.r", i, ".cp"), 3), hEnumCell(vr.T("routes.r", i, ".cd"), 3)}
		vr.Assume(row[7] != "" && row[8] != "")
		ids = append(ids, row[0])
		sorts = append(sorts, sov)
		rows = append(rows, row)
	}
	hUniqueIDs(ids)
	files := hBase()
	files["agency.txt"] = hAgencyFile([]string{"ag", "A", "u", "UTC"}, []string{"ag2", "B", "u", "UTC"})
	hPresent(files, "routes.txt", hdr, rows)
	files["trips.txt"] = vr.File{Name: "trips.txt", Header: []string{"route_id", "service_id", "trip_id"}, Rows: [][]string{}}
	files["stop_times.txt"] = vr.File{Name: "stop_times.txt", Header: []string{"trip_id", "stop_id", "stop_sequence"}, Rows: [][]string{}}
	r := hParseAll(files)
	if r == nil {
		return
	}
	vr.Assert("C01.routes.count", len(r.Routes) == R)
	if len(r.Routes) != R {
		return
	}
	for i := 0; i < R; i++ {
		g := r.Routes[i]
		row := rows[i]
		rt, _ := strconv.Atoi(row[5])
		so := int32(sorts[i])
		w := Route{Id: row[0], Agency: g.Agency, ShortName: row[2], LongName: row[3], Description: row[4], Type: RouteType(rt), Url: row[6], Color: row[7], TextColor: row[8],
			SortOrder: &so, ContinuousPickup: hPolicy(row[10]), ContinuousDropOff: hPolicy(row[11])}
		vr.Assert("C01.routes.fields", vr.DeepEq(g, w))
		vr.Assert("C01.routes.agency", g.Agency != nil && g.Agency.Id == row[1])
	}
}

func Harness_C01_stops() {
	R := vr.Param("R", 1)
	hdr := []string{"stop_id", "stop_code", "stop_name", "stop_desc", "zone_id", "stop_lat", "stop_lon", "stop_url", "location_type", "parent_station", "stop_timezone", "wheelchair_boarding", "platform_code"}
	rows := [][]string{{"station", "", "Station", "", "", "1", "2", "", "1", "", "", "0", ""}}
	var ids []string
	type ll struct{ lat, lon *float64 }
	var lls []ll
	for i := 0; i < R; i++ {
		lat, latv := hDecimal(vr.T("stops.r", i, ".lat"))
		lon, lonv := hDecimal(vr.T("stops.r", i, ".lon"))
		row := []string{vr.Str(vr.T("stops.r", i, ".id")), vr.Str(vr.T("stops.r", i, ".code")), vr.Str(vr.T("stops.r", i, ".name")), vr.Str(vr.T("stops.r", i, ".desc")), vr.Str(vr.T("stops.r", i, ".zone")),
			lat, lon, vr.Str(vr.T("stops.r", i, ".url")), vr.OneOf(vr.T("stops.r", i, ".type"), "0", "1", "2", "3", "4"), vr.OneOf(vr.T("stops.r", i, ".parent"), "", "station"),
			vr.Str(vr.T("stops.r", i, ".tz")), vr.OneOf(vr.T("stops.r", i, ".wb"), "0", "1", "2"), vr.Str(vr.T("stops.r", i, ".platform"))}
		vr.Assume(row[0] != "station")
		ids = append(ids, row[0])
		lls = append(lls, ll{latv, lonv})
		rows = append(rows, row)
	}
	hUniqueIDs(ids)
	files := hBase()
	hPresent(files, "stops.txt", hdr, rows)
	files["stop_times.txt"] = vr.File{Name: "stop_times.txt", Header: []string{"trip_id", "stop_id", "stop_sequence"}, Rows: [][]string{}}
	r := hParseAll(files)
	if r == nil {
		return
	}
	vr.Assert("C01.stops.count", len(r.Stops) == R+1)
	if len(r.Stops) != R+1 {
		return
	}
	for i := 0; i < R; i++ {
		g := r.Stops[i+1]
		row := rows[i+1]
		typ := StopType(row[8][0] - '0')
		if row[8] == "0" && row[9] != "" {
			typ = StopType_Platform
		}
		w := Stop{Id: row[0], Code: row[1], Name: row[2], Description: row[3], ZoneId: row[4], Latitude: lls[i].lat, Longitude: lls[i].lon, Url: row[7], Type: typ,
			Parent: g.Parent, Timezone: row[10], WheelchairBoarding: WheelchairBoarding(row[11][0] - '0'), PlatformCode: row[12]}
		vr.Assert("C01.stops.fields", vr.DeepEq(g, w))
		if row[9] == "" {
			vr.Assert("C01.stops.parent", g.Parent == nil)
		} else {
			vr.Assert("C01.stops.parent", g.Parent != nil && g.Parent.Id == row[9])
		}
	}
}

func Harness_C01_transfers() {
	R := vr.Param("R", 2)
	hdr := []string{"from_stop_id", "to_stop_id", "transfer_type", "min_transfer_time"}
	var rows [][]string
	var mins []int
	for i := 0; i < R; i++ {
		m, mv := hIntCell(vr.T("transfers.r", i, ".min"), 3)
		from := vr.OneOf(vr.T("transfers.r", i, ".from"), "s1", "s2")
		to := "s2"
		if from == "s2" {
			to = "s1"
		}
		rows = append(rows, []string{from, to, vr.OneOf(vr.T("transfers.r", i, ".type"), "0", "1", "2", "3"), m})
		mins = append(mins, mv)
	}
	files := hBase()
	hPresent(files, "transfers.txt", hdr, rows)
	r := hParseAll(files)
	if r == nil {
		return
	}
	vr.Assert("C01.transfers.count", len(r.Transfers) == R)
	if len(r.Transfers) != R {
		return
	}
	for i := 0; i < R; i++ {
		g := r.Transfers[i]
		mt := int32(mins[i])
		vr.Assert("C01.transfers.fields", vr.And(g.From != nil, g.To != nil, g.Type == TransferType(rows[i][2][0]-'0'), vr.DeepEq(g.MinTransferTime, &mt)))
		if g.From != nil && g.To != nil {
			vr.Assert("C01.transfers.refs", g.From.Id == rows[i][0] && g.To.Id == rows[i][1])
		}
	}
}

func Harness_C01_trips() {
	R := vr.Param("R", 1)
	hdr := []string{"route_id", "service_id", "trip_id", "trip_headsign", "trip_short_name", "direction_id", "block_id", "shape_id", "wheelchair_accessible", "bikes_allowed"}
	var rows [][]string
	var ids []string
	for i := 0; i < R; i++ {
		row := []string{vr.OneOf(vr.T("trips.r", i, ".route"), "r1", "r2"), vr.OneOf(vr.T("trips.r", i, ".service"), "sv1", "sv2"), vr.Str(vr.T("trips.r", i, ".id")), vr.Str(vr.T("trips.r", i, ".headsign")),
			vr.Str(vr.T("trips.r", i, ".short")), vr.OneOf(vr.T("trips.r", i, ".dir"), "0", "1"), vr.Str(vr.T("trips.r", i, ".block")), vr.OneOf(vr.T("trips.r", i, ".shape"), "", "sh1"),
			vr.OneOf(vr.T("trips.r", i, ".wa"), "0", "1", "2"), vr.OneOf(vr.T("trips.r", i, ".bikes"), "0", "1", "2")}
		ids = append(ids, row[2])
		rows = append(rows, row)
	}
	hUniqueIDs(ids)
	files := hBase()
	files["routes.txt"] = vr.File{Name: "routes.txt", Header: []string{"route_id", "agency_id", "route_type"}, Rows: [][]string{{"r1", "ag", "1"}, {"r2", "ag", "3"}}}
	files["calendar.txt"] = vr.File{Name: "calendar.txt", Header: files["calendar.txt"].Header, Rows: [][]string{files["calendar.txt"].Rows[0], {"sv2", "0", "0", "0", "0", "0", "1", "1", "20240101", "20240630"}}}
	files["shapes.txt"] = vr.File{Name: "shapes.txt", Header: []string{"shape_id", "shape_pt_lat", "shape_pt_lon", "shape_pt_sequence"}, Rows: [][]string{{"sh1", "1.5", "2.5", "1"}}}
	hPresent(files, "trips.txt", hdr, rows)
	files["stop_times.txt"] = vr.File{Name: "stop_times.txt", Header: []string{"trip_id", "stop_id", "stop_sequence"}, Rows: [][]string{}}
	r := hParseAll(files)
	if r == nil {
		return
	}
	vr.Assert("C01.trips.count", len(r.Trips) == R)
	if len(r.Trips) != R {
		return
	}
	for i := 0; i < R; i++ {
		g := r.Trips[i]
		row := rows[i]
		dir := DirectionID_False
		if row[5] == "1" {
			dir = DirectionID_True
		}
		w := ScheduledTrip{Route: g.Route, Service: g.Service, Shape: g.Shape, ID: row[2], Headsign: row[3], ShortName: row[4], DirectionId: dir, BlockID: row[6],
			WheelchairAccessible: WheelchairBoarding(row[8][0] - '0'), BikesAllowed: BikesAllowed(row[9][0] - '0')}
		vr.Assert("C01.trips.fields", vr.DeepEq(g, w))
		vr.Assert("C01.trips.refs", g.Route != nil && g.Route.Id == row[0] && g.Service != nil && g.Service.Id == row[1] && (g.Shape == nil) == (row[7] == "") && (g.Shape == nil || g.Shape.ID == row[7]))
	}
}

func Harness_C01_frequencies() {
	R := vr.Param("R", 2)
	hdr := []string{"trip_id", "start_time", "end_time", "headway_secs", "exact_times"}
	var rows [][]string
	type fr struct {
		s, e hTime
		h    int
	}
	var frs []fr
	for i := 0; i < R; i++ {
		s, e := hTimeCell(vr.T("freq.r", i, ".start")), hTimeCell(vr.T("freq.r", i, ".end"))
		h, hv := hIntCell(vr.T("freq.r", i, ".headway"), 4)
		rows = append(rows, []string{"t1", s.cell, e.cell, h, vr.OneOf(vr.T("freq.r", i, ".exact"), "0", "1")})
		frs = append(frs, fr{s, e, hv})
	}
	files := hBase()
	hPresent(files, "frequencies.txt", hdr, rows)
	r := hParseAll(files)
	if r == nil || len(r.Trips) != 1 {
		return
	}
	got := r.Trips[0].Frequencies
	vr.Assert("C01.frequencies.count", len(got) == R)
	if len(got) != R {
		return
	}
	for i := 0; i < R; i++ {
		w := Frequency{StartTime: time.Duration(frs[i].s.secs) * time.Second, EndTime: time.Duration(frs[i].e.secs) * time.Second,
			Headway: time.Duration(int32(frs[i].h)) * time.Second, ExactTimes: ExactTimes(rows[i][4][0] - '0')}
		vr.Assert("C01.frequencies.fields", vr.DeepEq(got[i], w))
	}
}

func Harness_C01_stop_times() {
	R := vr.Param("R", 1)
	hdr := []string{"trip_id", "arrival_time", "departure_time", "stop_id", "stop_sequence", "stop_headsign", "pickup_type", "drop_off_type", "continuous_pickup", "continuous_drop_off", "shape_dist_traveled", "timepoint"}
	var rows [][]string
	type st struct {
		a, d hTime
		seq  int
		dist *float64
	}
	var sts []st
	for i := 0; i < R; i++ {
		a, d := hTimeCell(vr.T("st.r", i, ".arr")), hTimeCell(vr.T("st.r", i, ".dep"))
		seq := vr.Chars(vr.T("st.r", i, ".seq"), 2, "digit")
		dist, distv := hDecimal(vr.T("st.r", i, ".dist"))
		rows = append(rows, []string{"t1", a.cell, d.cell, vr.OneOf(vr.T("st.r", i, ".stop"), "s1", "s2"), vr.T(i+1) + seq, vr.Str(vr.T("st.r", i, ".headsign")),
			hEnumCell(vr.T("st.r", i, ".pickup"), 3), hEnumCell(vr.T("st.r", i, ".dropoff"), 3),
			hEnumCell(vr.T("st.r", i, ".cp"), 3), hEnumCell(vr.T("st.r", i, ".cd"), 3), dist, hEnumCell(vr.T("st.r", i, ".timepoint"), 1)})
		sts = append(sts, st{a, d, (i+1)*100 + hAtoi(seq), distv})
	}
	files := hBase()
	hPresent(files, "stop_times.txt", hdr, rows)
	r := hParseAll(files)
	if r == nil || len(r.Trips) != 1 {
		return
	}
	got := r.Trips[0].StopTimes
	vr.Assert("C01.stop_times.count", len(got) == R)
	if len(got) != R {
		return
	}
	for i := 0; i < R; i++ {
		row := rows[i]
		w := ScheduledStopTime{Trip: got[i].Trip, Stop: got[i].Stop, ArrivalTime: time.Duration(sts[i].a.secs) * time.Second, DepartureTime: time.Duration(sts[i].d.secs) * time.Second,
			StopSequence: sts[i].seq, Headsign: row[5], PickupType: hPolicy(row[6]), DropOffType: hPolicy(row[7]), ContinuousPickup: hPolicy(row[8]), ContinuousDropOff: hPolicy(row[9]),
			ShapeDistanceTraveled: sts[i].dist, ExactTimes: row[11] == "1"}
		vr.Assert("C01.stop_times.fields", vr.DeepEq(got[i], w))
		vr.Assert("C01.stop_times.stop", got[i].Stop != nil && got[i].Stop.Id == row[3])
	}
}

func Harness_C01_shapes() {
	R := vr.Param("R", 2)
	hdr := []string{"shape_id", "shape_pt_lat", "shape_pt_lon", "shape_pt_sequence", "shape_dist_traveled"}
	var rows [][]string
	type pt struct{ lat, lon, dist *float64 }
	var pts []pt
	id := vr.Str("shape.id")
	vr.Assume(id != "")
	for i := 0; i < R; i++ {
		lat, latv := hDecimal(vr.T("sh.r", i, ".lat"))
		lon, lonv := hDecimalN(vr.T("sh.r", i, ".lon"), 2)
		dist, distv := hDecimalN(vr.T("sh.r", i, ".dist"), 2)
		rows = append(rows, []string{id, lat, lon, vr.T(i+1) + vr.Chars(vr.T("sh.r", i, ".seq"), 1, "digit"), dist})
		pts = append(pts, pt{latv, lonv, distv})
	}
	files := hBase()
	hPresent(files, "shapes.txt", hdr, rows)
	r := hParseAll(files)
	if r == nil {
		return
	}
	vr.Assert("C01.shapes.count", len(r.Shapes) == 1 && len(r.Shapes[0].Points) == R && r.Shapes[0].ID == id)
	if len(r.Shapes) != 1 || len(r.Shapes[0].Points) != R {
		return
	}
	for i := 0; i < R; i++ {
		w := ShapePoint{Latitude: *pts[i].lat, Longitude: *pts[i].lon, Distance: pts[i].dist}
		vr.Assert("C01.shapes.fields", vr.DeepEq(r.Shapes[0].Points[i], w))
	}
}

func Harness_C01_calendar() {
	hdr := []string{"service_id", "monday", "tuesday", "wednesday", "thursday", "friday", "saturday", "sunday", "start_date", "end_date"}
	id := vr.Str("service.id")
	vr.Assume(id != "")
	s, e := hDateCell("cal.start"), hDateCell("cal.end")
	vr.Assume(s.key() <= e.key())
	row := []string{id}
	var days [7]bool
	for d := 0; d < 7; d++ {
		c := vr.OneOf(vr.T("cal.day", d), "0", "1")
		days[d] = c == "1"
		row = append(row, c)
	}
	row = append(row, s.cell, e.cell)
	files := hBase()
	files["agency.txt"] = hAgencyFile([]string{"ag", "A", "u", "Europe/Paris"}, []string{"ag2", "B", "u", "Asia/Tokyo"})
	hPresent(files, "calendar.txt", hdr, [][]string{row})
	files["trips.txt"] = vr.File{Name: "trips.txt", Header: []string{"route_id", "service_id", "trip_id"}, Rows: [][]string{}}
	files["stop_times.txt"] = vr.File{Name: "stop_times.txt", Header: []string{"trip_id", "stop_id", "stop_sequence"}, Rows: [][]string{}}
	r := hParseAll(files)
	if r == nil {
		return
	}
	vr.Assert("C01.calendar.count", len(r.Services) == 1)
	if len(r.Services) != 1 {
		return
	}
	zone, err := time.LoadLocation("Europe/Paris")
	vr.Assume(err == nil)
	w := Service{Id: id, Monday: days[0], Tuesday: days[1], Wednesday: days[2], Thursday: days[3], Friday: days[4], Saturday: days[5], Sunday: days[6],
		StartDate: s.in(zone), EndDate: e.in(zone)}
	vr.Assert("C01.calendar.fields", vr.DeepEq(r.Services[0], w))
}
