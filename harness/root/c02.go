//go:build verif

package gtfs

import (
	vr "github.com/jamespfennell/gtfs/internal/verifrt"
	gtfsrt "github.com/jamespfennell/gtfs/proto"
)

func init() {
	vr.Register("Harness_C02_tripupdate", Harness_C02_tripupdate)
	vr.Register("Harness_C02_vehicle", Harness_C02_vehicle)
	vr.Register("Harness_C02_alert", Harness_C02_alert)
}

// One trip-update entity. PART selects which group of optional fields varies
// (the groups do not interact in the parser; each is explored exhaustively
// while the others are present with symbolic values):
//
//	PART 0: the trip descriptor (every field optional, every start time/date shape)
//	PART 1: S stop time updates with every presence pattern
//	PART 2: the vehicle descriptor (absent / id / label / licence plate / all)
func Harness_C02_tripupdate() {
	S := vr.Param("S", 1)
	part := vr.Param("PART", 0)
	opt, zone := hZone()
	var desc hDesc
	if part == 0 || part == 3 {
		desc = hTripDescriptor("tu.trip", zone, vr.Param("KINDS", 2))
	} else {
		tid := vr.Str("tu.trip.trip_id")
		desc = hDesc{d: &gtfsrt.TripDescriptor{TripId: &tid}, wantID: TripID{ID: tid}}
	}
	tu := &gtfsrt.TripUpdate{Trip: desc.d}
	if part == 1 || part == 3 {
		for i := 0; i < S; i++ {
			tu.StopTimeUpdate = append(tu.StopTimeUpdate, hStopTimeUpdate(vr.T("tu.stu", i)))
		}
	} else {
		S = 0
	}
	vkind := 1
	if part == 2 || part == 3 {
		vkind = vr.Int("tu.vehicle.kind", 0, vr.Param("VKINDS", 4))
	}
	vd, wantVID := hVehicleDescriptor("tu.vehicle", vkind)
	tu.Vehicle = vd
	id := "e1"
	msg := &gtfsrt.FeedMessage{Header: hHeader("header"), Entity: []*gtfsrt.FeedEntity{{Id: &id, TripUpdate: tu}}}

	r, err := ParseRealtime(vr.Marshal(msg), &ParseRealtimeOptions{Timezone: opt})
	vr.Assert("C02.returns", err == nil && r != nil)
	if err != nil || r == nil {
		return
	}
	// header
	if msg.Header.Timestamp != nil {
		vr.Assert("C02.header.timestamp", vr.DeepEq(r.CreatedAt, vr.Unix(int64(*msg.Header.Timestamp), zone)))
	} else {
		vr.Assert("C02.absent.header.timestamp", r.CreatedAt.IsZero())
	}
	vr.Assert("C02.count.trips", len(r.Trips) == 1)
	vr.Assert("C02.count.alerts", len(r.Alerts) == 0)
	if len(r.Trips) != 1 {
		return
	}
	t := r.Trips[0]
	vr.Assert("C02.trip.id", vr.DeepEq(t.ID.ID, desc.wantID.ID) && vr.DeepEq(t.ID.RouteID, desc.wantID.RouteID))
	vr.Assert("C02.trip.direction", t.ID.DirectionID == desc.wantID.DirectionID)
	vr.Assert("C02.trip.start_time", vr.And(t.ID.HasStartTime == desc.wantID.HasStartTime, t.ID.StartTime == desc.wantID.StartTime))
	vr.Assert("C02.trip.start_date", vr.And(t.ID.HasStartDate == desc.wantID.HasStartDate, vr.DeepEq(t.ID.StartDate, desc.wantID.StartDate)))
	vr.Assert("C02.trip.schedule_relationship", t.ID.ScheduleRelationship == desc.wantID.ScheduleRelationship)
	vr.Assert("C02.trip.in_message", t.IsEntityInMessage)
	vr.Assert("C02.count.stop_time_updates", len(t.StopTimeUpdates) == S)
	if len(t.StopTimeUpdates) != S {
		return
	}
	for i := 0; i < S; i++ {
		want := hWantStopTimeUpdate(tu.StopTimeUpdate[i], zone)
		vr.Assert("C02.stoptime", vr.DeepEq(t.StopTimeUpdates[i], want))
	}
	// the vehicle mentioned by the trip update
	if wantVID == nil {
		vr.Assert("C02.count.vehicles", len(r.Vehicles) == 0)
	} else {
		vr.Assert("C02.count.vehicles", len(r.Vehicles) == 1)
		if len(r.Vehicles) == 1 {
			v := r.Vehicles[0]
			vr.Assert("C02.vehicle.id", vr.DeepEq(v.ID, wantVID))
			vr.Assert("C02.vehicle.not_in_message", !v.IsEntityInMessage)
			vr.Assert("C02.absent.vehicle_fields", vr.DeepEq(v, Vehicle{ID: v.ID, Trip: v.Trip}))
		}
	}
}

// One vehicle-position entity with every optional field present or absent.
func Harness_C02_vehicle() {
	opt, zone := hZone()
	vd, wantVID := hVehicleDescriptor("vp.vehicle", vr.Int("vp.vehicle.kind", 0, vr.Param("VKINDS", 4)))
	vp := &gtfsrt.VehiclePosition{
		Vehicle:             vd,
		CurrentStopSequence: hOptU32("vp.current_stop_sequence"),
		StopId:              hOptStr("vp.stop_id"),
		Timestamp:           hOptU64("vp.timestamp"),
		OccupancyPercentage: hOptU32("vp.occupancy_percentage"),
	}
	if !vr.Bool("vp.position.nil") {
		lat, lon := vr.F32("vp.position.latitude"), vr.F32("vp.position.longitude")
		vp.Position = &gtfsrt.Position{Latitude: &lat, Longitude: &lon, Bearing: hOptF32("vp.position.bearing"),
			Odometer: hOptF64("vp.position.odometer"), Speed: hOptF32("vp.position.speed")}
	}
	want := Vehicle{ID: wantVID, CurrentStopSequence: vp.CurrentStopSequence, StopID: vp.StopId,
		OccupancyPercentage: vp.OccupancyPercentage, IsEntityInMessage: true}
	if vp.Position != nil {
		want.Position = &Position{Latitude: vp.Position.Latitude, Longitude: vp.Position.Longitude, Bearing: vp.Position.Bearing,
			Odometer: vp.Position.Odometer, Speed: vp.Position.Speed}
	}
	if vp.Timestamp != nil {
		t := vr.Unix(int64(*vp.Timestamp), zone)
		want.Timestamp = &t
	}
	if !vr.Bool("vp.current_status.nil") {
		s := gtfsrt.VehiclePosition_VehicleStopStatus(vr.I32("vp.current_status"))
		vp.CurrentStatus = &s
		want.CurrentStatus = &s
	}
	if !vr.Bool("vp.congestion_level.nil") {
		s := gtfsrt.VehiclePosition_CongestionLevel(vr.I32("vp.congestion_level"))
		vp.CongestionLevel = &s
		want.CongestionLevel = s
	} // else UNKNOWN_CONGESTION_LEVEL (= 0)
	if !vr.Bool("vp.occupancy_status.nil") {
		s := gtfsrt.VehiclePosition_OccupancyStatus(vr.I32("vp.occupancy_status"))
		vp.OccupancyStatus = &s
		want.OccupancyStatus = &s
	}
	var desc hDesc
	hasTrip := vr.Bool("vp.has_trip")
	if hasTrip {
		desc = hTripDescriptor("vp.trip", zone, vr.Param("KINDS", 1))
		vp.Trip = desc.d
	}
	id := "e1"
	msg := &gtfsrt.FeedMessage{Header: hHeader("header"), Entity: []*gtfsrt.FeedEntity{{Id: &id, Vehicle: vp}}}

	r, err := ParseRealtime(vr.Marshal(msg), &ParseRealtimeOptions{Timezone: opt})
	vr.Assert("C02.returns", err == nil && r != nil)
	if err != nil || r == nil {
		return
	}
	vr.Assert("C02.count.vehicles", len(r.Vehicles) == 1)
	vr.Assert("C02.count.alerts", len(r.Alerts) == 0)
	if len(r.Vehicles) != 1 {
		return
	}
	got := r.Vehicles[0]
	want.Trip = got.Trip // links are C04's subject
	vr.Assert("C02.vehicle.fields", vr.DeepEq(got, want))
	if hasTrip {
		vr.Assert("C02.count.trips", len(r.Trips) == 1)
		if len(r.Trips) == 1 {
			vr.Assert("C02.trip.id_from_vehicle", vr.DeepEq(r.Trips[0].ID, desc.wantID))
			vr.Assert("C02.trip.not_in_message", !r.Trips[0].IsEntityInMessage)
			vr.Assert("C02.absent.stop_time_updates", len(r.Trips[0].StopTimeUpdates) == 0)
		}
	} else {
		vr.Assert("C02.count.trips", len(r.Trips) == 0)
	}
}

func hTranslated(tag string, n int) (*gtfsrt.TranslatedString, []AlertText) {
	if vr.Bool(tag + ".nil") {
		return nil, nil
	}
	ts := &gtfsrt.TranslatedString{}
	var want []AlertText
	for i := 0; i < n; i++ {
		text := vr.Str(vr.T(tag, ".", i, ".text"))
		lang := hOptStr(vr.T(tag, ".", i, ".language"))
		ts.Translation = append(ts.Translation, &gtfsrt.TranslatedString_Translation{Text: &text, Language: lang})
		w := AlertText{Text: text}
		if lang != nil {
			w.Language = *lang
		}
		want = append(want, w)
	}
	return ts, want
}

// One alert entity: cause/effect, active periods, translated texts.
func Harness_C02_alert() {
	opt, zone := hZone()
	P := vr.Param("P", 1)
	a := &gtfsrt.Alert{}
	want := Alert{}
	if !vr.Bool("alert.cause.nil") {
		c := gtfsrt.Alert_Cause(vr.I32("alert.cause"))
		a.Cause = &c
		want.Cause = c
	} else {
		want.Cause = gtfsrt.Alert_UNKNOWN_CAUSE
	}
	if !vr.Bool("alert.effect.nil") {
		c := gtfsrt.Alert_Effect(vr.I32("alert.effect"))
		a.Effect = &c
		want.Effect = c
	} else {
		want.Effect = gtfsrt.Alert_UNKNOWN_EFFECT
	}
	for i := 0; i < P; i++ {
		tr := &gtfsrt.TimeRange{Start: hOptU64(vr.T("alert.period", i, ".start")), End: hOptU64(vr.T("alert.period", i, ".end"))}
		a.ActivePeriod = append(a.ActivePeriod, tr)
		w := AlertActivePeriod{}
		if tr.Start != nil {
			t := vr.Unix(int64(*tr.Start), zone)
			w.StartsAt = &t
		}
		if tr.End != nil {
			t := vr.Unix(int64(*tr.End), zone)
			w.EndsAt = &t
		}
		want.ActivePeriods = append(want.ActivePeriods, w)
	}
	a.HeaderText, want.Header = hTranslated("alert.header", vr.Param("TR", 1))
	a.DescriptionText, want.Description = hTranslated("alert.description", vr.Param("TR", 1))
	a.Url, want.URL = hTranslated("alert.url", vr.Param("TR", 1))
	stop := vr.Str("alert.stop")
	a.InformedEntity = []*gtfsrt.EntitySelector{{StopId: &stop}}
	want.InformedEntities = []AlertInformedEntity{{StopID: &stop, RouteType: RouteType_Unknown}}
	id := vr.Str("alert.id")
	want.ID = id
	msg := &gtfsrt.FeedMessage{Header: hHeader("header"), Entity: []*gtfsrt.FeedEntity{{Id: &id, Alert: a}}}

	r, err := ParseRealtime(vr.Marshal(msg), &ParseRealtimeOptions{Timezone: opt})
	vr.Assert("C02.returns", err == nil && r != nil)
	if err != nil || r == nil {
		return
	}
	vr.Assert("C02.count.alerts", len(r.Alerts) == 1)
	vr.Assert("C02.count.trips", len(r.Trips) == 0 && len(r.Vehicles) == 0)
	if len(r.Alerts) != 1 {
		return
	}
	g := r.Alerts[0]
	vr.Assert("C02.alert.id", g.ID == want.ID)
	vr.Assert("C02.alert.cause_effect", vr.And(g.Cause == want.Cause, g.Effect == want.Effect))
	vr.Assert("C02.alert.periods", vr.DeepEq(g.ActivePeriods, want.ActivePeriods))
	vr.Assert("C02.alert.texts", vr.And(vr.DeepEq(g.Header, want.Header), vr.DeepEq(g.Description, want.Description), vr.DeepEq(g.URL, want.URL)))
	vr.Assert("C02.alert.informed", vr.DeepEq(g.InformedEntities, want.InformedEntities))
}
