package main

// os / filepath / clock: the directory is a harness-supplied listing with a
// per-entry fault kind; os.ReadDir returns the entries sorted by name (its
// documented contract), os.ReadFile fails for unreadable entries, the clock is
// nondeterministic.

import (
	"go/types"
	"io/fs"

	"golang.org/x/tools/go/ssa"
)

type dirEnt struct {
	name  StrV
	kind  int // 0 good, 1 unreadable (sub-directory), 2 corrupt bytes, 3 empty file
	msg   Ptr
	index int
}

type dirObj struct {
	base string
	ents []*dirEnt
}

func init() {
	intrinsics["Dir"] = func(e *Exec, fr *Frame, fn *ssa.Function, a []Value) Value {
		d := &dirObj{base: "/verifdir"}
		for i, ev := range e.sliceElems(a[0].(SliceV)) {
			sv := ev.(StructV)
			k, ok := constInt(sv.F[1].(*Term))
			if !ok {
				e.unsupported("Dir entry with symbolic kind")
			}
			d.ents = append(d.ents, &dirEnt{name: sv.F[0].(StrV), kind: k, msg: sv.F[2].(Ptr), index: i})
		}
		e.pathAux["dir"] = d
		return chStr(e.tf, d.base)
	}
	stubs["os.ReadDir"] = func(e *Exec, fr *Frame, fn *ssa.Function, a []Value) Value {
		d, _ := e.pathAux["dir"].(*dirObj)
		name, _ := a[0].(StrV).Const()
		if d == nil || name != d.base {
			return TupleV{SliceV{}, e.newError("open: no such file or directory")}
		}
		ents := append([]*dirEnt{}, d.ents...)
		for i := 1; i < len(ents); i++ { // sorted by filename
			for j := i; j > 0; j-- {
				if !e.decide(e.strLess(ents[j].name, ents[j-1].name)) {
					break
				}
				ents[j], ents[j-1] = ents[j-1], ents[j]
			}
		}
		var vals []Value
		for _, en := range ents {
			o := e.newObj(StructV{}, nil)
			o.Aux = en
			vals = append(vals, IfaceV{T: opaqueTypeOf("direntry"), V: Ptr{Obj: o}})
		}
		return TupleV{e.newSlice(vals, nil), IfaceV{}}
	}
	opaqueMethods["$direntry.Name"] = func(e *Exec, fr *Frame, recv IfaceV, a []Value) Value {
		return recv.V.(Ptr).Obj.Aux.(*dirEnt).name
	}
	opaqueMethods["$direntry.IsDir"] = func(e *Exec, fr *Frame, recv IfaceV, a []Value) Value {
		return e.tf.Bool(recv.V.(Ptr).Obj.Aux.(*dirEnt).kind == 1) // kind 1: a sub-directory
	}
	stubs["path/filepath.Join"] = func(e *Exec, fr *Frame, fn *ssa.Function, a []Value) Value {
		parts := e.sliceElems(a[0].(SliceV))
		out := chStr(e.tf, "")
		for i, p := range parts {
			if i > 0 {
				out = strConcat(e.tf, out, chStr(e.tf, "/"))
			}
			out = strConcat(e.tf, out, p.(StrV))
		}
		return out
	}
	stubs["os.ReadFile"] = func(e *Exec, fr *Frame, fn *ssa.Function, a []Value) Value {
		d, _ := e.pathAux["dir"].(*dirObj)
		path := a[0].(StrV)
		if d != nil {
			for _, en := range d.ents {
				full := strConcat(e.tf, chStr(e.tf, d.base+"/"), en.name)
				if e.decide(strEq(e.tf, path, full)) {
					switch en.kind {
					case 1:
						return TupleV{SliceV{}, e.newError("read: is a directory")}
					case 2:
						arr := e.newObj(ArrayV{E: []Value{e.tf.Int(0)}}, nil) // opaque non-empty content
						arr.Aux = &protoBlob{bad: true}
						return TupleV{SliceV{Arr: arr, Len: 1, Cap: 1}, IfaceV{}}
					case 3:
						return TupleV{SliceV{}, IfaceV{}}
					}
					arr := e.newObj(ArrayV{E: []Value{e.tf.Int(0)}}, nil) // opaque non-empty content
					arr.Aux = &protoBlob{msg: en.msg}
					return TupleV{SliceV{Arr: arr, Len: 1, Cap: 1}, IfaceV{}}
				}
			}
		}
		return TupleV{SliceV{}, e.newError("open: no such file or directory")}
	}
	stubs["os.Open"] = func(e *Exec, fr *Frame, fn *ssa.Function, a []Value) Value {
		d, _ := e.pathAux["dir"].(*dirObj)
		path := a[0].(StrV)
		if d != nil {
			for _, en := range d.ents {
				full := strConcat(e.tf, chStr(e.tf, d.base+"/"), en.name)
				if e.decide(strEq(e.tf, path, full)) {
					o := e.newObj(StructV{}, nil)
					o.Aux = en
					return TupleV{Ptr{Obj: o}, IfaceV{}}
				}
			}
		}
		return TupleV{Ptr{}, e.newError("open: no such file or directory")}
	}
	stubs["(*os.File).Close"] = func(e *Exec, fr *Frame, fn *ssa.Function, a []Value) Value { return IfaceV{} }
	stubs["(*bytes.Buffer).ReadFrom"] = func(e *Exec, fr *Frame, fn *ssa.Function, a []Value) Value {
		bp := a[0].(Ptr)
		src := a[1].(IfaceV)
		fp, ok := src.V.(Ptr)
		if !ok || fp.Obj == nil {
			e.unsupported("bytes.Buffer.ReadFrom of an unknown reader")
		}
		en, ok := fp.Obj.Aux.(*dirEnt)
		if !ok {
			e.unsupported("bytes.Buffer.ReadFrom of a reader not produced by the harness")
		}
		switch en.kind {
		case 1:
			return TupleV{e.tf.Int(0), e.newError("read: is a directory")}
		case 3:
			return TupleV{e.tf.Int(0), IfaceV{}}
		}
		c := chunk{blob: &protoBlob{msg: en.msg, bad: en.kind == 2}}
		e.writes++
		e.pathAux[e.bufKey(bp)] = append(append([]chunk{}, e.bufGet(bp)...), c)
		return TupleV{e.tf.Int(1), IfaceV{}}
	}
	stubs["time.Now"] = func(e *Exec, fr *Frame, fn *ssa.Function, a []Value) Value {
		e.pathAuxInc("clock")
		lo, hi := typeRange(63, false)
		return TimeV{Sec: e.input("env.time.now."+itoa(e.pathAux["clock"].(int)), SInt, lo, hi), Loc: e.locObj("Local")}
	}
	stubs["time.Since"] = func(e *Exec, fr *Frame, fn *ssa.Function, a []Value) Value {
		e.pathAuxInc("clock")
		lo, hi := typeRange(63, false)
		return e.input("env.time.since."+itoa(e.pathAux["clock"].(int)), SInt, lo, hi)
	}
}

func init() {
	// bytes.Equal over file contents / marshalled messages (opaque blobs): equal contents are equal messages.
	stubs["bytes.Equal"] = func(e *Exec, fr *Frame, fn *ssa.Function, a []Value) Value {
		x, okx := a[0].(SliceV)
		y, oky := a[1].(SliceV)
		if !okx || !oky {
			e.unsupported("bytes.Equal of %T and %T", a[0], a[1])
		}
		if x.Len == 0 || y.Len == 0 {
			return e.tf.Bool(x.Len == 0 && y.Len == 0)
		}
		if x.Arr == y.Arr && x.Off == y.Off && x.Len == y.Len {
			return e.tf.Bool(true)
		}
		bx, _ := x.Arr.Aux.(*protoBlob)
		by, _ := y.Arr.Aux.(*protoBlob)
		if bx == nil || by == nil {
			e.unsupported("bytes.Equal of byte slices not produced by the harness")
		}
		if bx.bad != by.bad {
			return e.tf.Bool(false) // corrupt bytes never equal the encoding of a message
		}
		if bx.bad {
			e.unsupported("bytes.Equal of two corrupt contents")
		}
		if bx.msg.Obj == nil || by.msg.Obj == nil || bx.msg.Obj.Typ == nil {
			e.unsupported("bytes.Equal of untyped messages")
		}
		return e.deepEq(bx.msg, by.msg, types.NewPointer(bx.msg.Obj.Typ), map[string]bool{})
	}
}

func init() {
	// os.Lstat / os.Stat over the modelled directory: a FileInfo whose Mode is known (directory, symbolic link, regular).
	stat := func(follow bool) func(e *Exec, fr *Frame, fn *ssa.Function, a []Value) Value {
		return func(e *Exec, fr *Frame, fn *ssa.Function, a []Value) Value {
			d, _ := e.pathAux["dir"].(*dirObj)
			path := a[0].(StrV)
			if d != nil {
				for _, en := range d.ents {
					full := strConcat(e.tf, chStr(e.tf, d.base+"/"), en.name)
					if e.decide(strEq(e.tf, path, full)) {
						mode := int64(0o644)
						switch {
						case en.kind == 1:
							mode = int64(fs.ModeDir) | 0o755
						case en.kind == 4 && !follow:
							mode = int64(fs.ModeSymlink) | 0o777
						}
						o := e.newObj(StructV{}, nil)
						o.Aux = mode
						return TupleV{IfaceV{T: opaqueTypeOf("fileinfo"), V: Ptr{Obj: o}}, IfaceV{}}
					}
				}
			}
			return TupleV{IfaceV{}, e.newError("stat: no such file or directory")}
		}
	}
	stubs["os.Lstat"] = stat(false)
	stubs["os.Stat"] = stat(true)
	opaqueMethods["$fileinfo.Mode"] = func(e *Exec, fr *Frame, recv IfaceV, a []Value) Value {
		return e.tf.Int(recv.V.(Ptr).Obj.Aux.(int64))
	}
	opaqueMethods["$fileinfo.IsDir"] = func(e *Exec, fr *Frame, recv IfaceV, a []Value) Value {
		return e.tf.Bool(fs.FileMode(recv.V.(Ptr).Obj.Aux.(int64)).IsDir())
	}
	modeFn := func(f func(fs.FileMode) bool) func(e *Exec, fr *Frame, fn *ssa.Function, a []Value) Value {
		return func(e *Exec, fr *Frame, fn *ssa.Function, a []Value) Value {
			m, ok := constInt(a[0].(*Term))
			if !ok {
				e.unsupported("FileMode method on a symbolic mode")
			}
			return e.tf.Bool(f(fs.FileMode(m)))
		}
	}
	stubs["(io/fs.FileMode).IsRegular"] = modeFn(fs.FileMode.IsRegular)
	stubs["(io/fs.FileMode).IsDir"] = modeFn(fs.FileMode.IsDir)
}
