package main

// Native replay: the same harness source, built with the native runtime
// flavour against /repo's current tree (go build -overlay), fed a solver model.

import (
	"context"
	"encoding/json"
	"fmt"
	"os"
	"os/exec"
	"path/filepath"
	"strings"
	"sync"
	"time"
)

type replayer struct {
	p       *Program
	dir     string
	bin     string
	built   bool
	buildEr error
	mu      sync.Mutex
	n       int
	race    *replayer
	isRace  bool
}

type replayOut struct {
	reached      map[string]bool
	failed       map[string]bool
	assumeFailed bool
	panicked     bool
	panicMsg     string
	timedOut     bool
	done         bool
	raw          string
}

func (o *replayOut) summary() string {
	var fs []string
	for k := range o.failed {
		fs = append(fs, k)
	}
	s := fmt.Sprintf("native: done=%v assumeFailed=%v panicked=%v timedOut=%v failedAsserts=%v", o.done, o.assumeFailed, o.panicked, o.timedOut, fs)
	if o.panicked {
		s += " panic=" + truncStr(o.panicMsg, 300)
	}
	return s
}

func (o *replayOut) reproduces(f Failure) bool {
	switch f.Kind {
	case "assert":
		// concurrency assertions: the race detector's report, or a crash that only the concurrent run shows
		// (the sequential witness of the same harness passed), e.g. "concurrent map writes" or a corrupted buffer
		if strings.HasPrefix(f.AssertID, "C18.") && (strings.Contains(o.raw, "DATA RACE") || o.panicked || strings.Contains(o.raw, "fatal error: concurrent map")) {
			return true
		}
		return o.failed[f.AssertID]
	case "panic":
		return o.panicked
	case "hang":
		return o.timedOut
	case "conflict":
		return o.failed[f.AssertID] || strings.Contains(o.raw, "DATA RACE")
	}
	return false
}

func newReplayer(p *Program) *replayer {
	dir := filepath.Join(verifDir, ".work", fmt.Sprintf("%d", os.Getpid()))
	return &replayer{p: p, dir: dir}
}

func (r *replayer) cleanup() {
	if os.Getenv("VERIF_KEEP") != "" {
		return
	}
	os.RemoveAll(r.dir)
	if r.race != nil {
		os.RemoveAll(r.race.dir)
	}
}

func goEnv() []string {
	return append(os.Environ(), "GOFLAGS=-mod=mod", "GOPROXY=off", "GOSUMDB=off", "GOTOOLCHAIN=local")
}

func (r *replayer) build() error {
	r.mu.Lock()
	defer r.mu.Unlock()
	if r.built {
		return r.buildEr
	}
	r.built = true
	os.MkdirAll(r.dir, 0o755)
	ov := struct {
		Replace map[string]string
	}{overlayFiles("native")}
	b, _ := json.Marshal(ov)
	ovPath := filepath.Join(r.dir, "overlay.json")
	os.WriteFile(ovPath, b, 0o644)
	r.bin = filepath.Join(r.dir, "replay")
	args := []string{"build", "-tags", "verif", "-overlay", ovPath, "-o", r.bin}
	if os.Getenv("VERIF_RACE") != "" || r.isRace {
		args = append(args, "-race")
	}
	args = append(args, "./internal/verifmain")
	cmd := exec.Command("go", args...)
	cmd.Dir = repoDir
	cmd.Env = goEnv()
	out, err := cmd.CombinedOutput()
	if err != nil {
		r.buildEr = fmt.Errorf("native harness build failed: %v\n%s", err, out)
	}
	return r.buildEr
}

func (r *replayer) replay(hs HarnessSpec, model map[string]string, kind string) (*replayOut, error) {
	if hs.Cfg["race"] == "1" && !r.isRace {
		r.mu.Lock()
		if r.race == nil {
			r.race = &replayer{p: r.p, dir: r.dir + "_race", isRace: true}
		}
		rr := r.race
		r.mu.Unlock()
		return rr.replay(hs, model, kind)
	}
	if err := r.build(); err != nil {
		return nil, err
	}
	r.mu.Lock()
	r.n++
	path := filepath.Join(r.dir, fmt.Sprintf("in%d.json", r.n))
	r.mu.Unlock()
	writeReplayFile(path, hs, model, nil)
	return runReplay(r.bin, path, 20*time.Second)
}

func writeReplayFile(path string, hs HarnessSpec, model map[string]string, expect map[string]string) {
	doc := map[string]interface{}{"harness": hs.Fn, "pkg": hs.Pkg, "params": hs.Params, "cfg": hs.Cfg, "values": model}
	if expect != nil {
		doc["expect"] = expect
	}
	b, _ := json.MarshalIndent(doc, "", " ")
	os.WriteFile(path, b, 0o644)
}

func runReplay(bin, path string, timeout time.Duration) (*replayOut, error) {
	ctx, cancel := context.WithTimeout(context.Background(), timeout)
	defer cancel()
	cmd := exec.CommandContext(ctx, bin, path)
	cmd.Dir = repoDir
	outb, err := cmd.CombinedOutput()
	out := &replayOut{reached: map[string]bool{}, failed: map[string]bool{}, raw: string(outb)}
	if ctx.Err() == context.DeadlineExceeded {
		out.timedOut = true
		return out, nil
	}
	for _, l := range strings.Split(string(outb), "\n") {
		switch {
		case strings.HasPrefix(l, "REACHED "):
			out.reached[strings.TrimPrefix(l, "REACHED ")] = true
		case strings.HasPrefix(l, "ASSERT-FAILED "):
			out.failed[strings.TrimPrefix(l, "ASSERT-FAILED ")] = true
		case l == "ASSUME-FAILED":
			out.assumeFailed = true
		case strings.HasPrefix(l, "PANIC "):
			out.panicked = true
			out.panicMsg = strings.TrimPrefix(l, "PANIC ")
		case l == "DONE":
			out.done = true
		case strings.HasPrefix(l, "fatal error:") || strings.HasPrefix(l, "panic:"):
			out.panicked = true
			out.panicMsg = l
		case strings.HasPrefix(l, "ERROR "):
			return out, fmt.Errorf("%s", l)
		}
	}
	if strings.Contains(string(outb), "DATA RACE") {
		return out, nil
	}
	if err != nil && !out.panicked && !out.done && !out.assumeFailed {
		return out, fmt.Errorf("replay binary: %v: %s", err, truncStr(string(outb), 400))
	}
	return out, nil
}

func (r *replayer) saveReplay(prop string, hs HarnessSpec, f Failure) string {
	dir := filepath.Join(verifDir, "replays")
	os.MkdirAll(dir, 0o755)
	name := fmt.Sprintf("%s_%s_%s.json", prop, hs.Fn, sanitize(f.AssertID))
	path := filepath.Join(dir, name)
	writeReplayFile(path, hs, f.Model, map[string]string{"assert_id": f.AssertID, "kind": f.Kind, "site": f.Site, "msg": f.Msg, "pos": f.Pos})
	return path
}

// cmdReplay re-runs a saved counterexample against the native build of the current tree.
func cmdReplay(args []string) int {
	if len(args) < 1 {
		fmt.Println("usage: ssasym replay <file.json>")
		return 2
	}
	b, err := os.ReadFile(args[0])
	if err != nil {
		fmt.Println(err)
		return 2
	}
	var doc struct {
		Harness string            `json:"harness"`
		Pkg     string            `json:"pkg"`
		Expect  map[string]string `json:"expect"`
	}
	json.Unmarshal(b, &doc)
	r := newReplayer(nil)
	defer r.cleanup()
	if err := r.build(); err != nil {
		fmt.Println(err)
		return 2
	}
	out, err := runReplay(r.bin, args[0], 30*time.Second)
	if err != nil {
		fmt.Println(err)
		return 2
	}
	fmt.Print(out.raw)
	f := Failure{AssertID: doc.Expect["assert_id"], Kind: doc.Expect["kind"]}
	if out.reproduces(f) {
		fmt.Println("REPRODUCED", doc.Expect)
		return 1
	}
	fmt.Println("NOT REPRODUCED:", out.summary())
	return 0
}
