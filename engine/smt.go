package main

// One persistent solver process (z3 -in) per executor, driven through
// SMT-LIB2 with push/pop. Any "(error" line makes the answer inconclusive.

import (
	"bufio"
	"fmt"
	"io"
	"os"
	"os/exec"
	"strings"
	"time"
)

type Verdict int

const (
	Unsat Verdict = iota
	Sat
	Unknown
)

func (v Verdict) String() string { return [...]string{"unsat", "sat", "unknown"}[v] }

type Solver struct {
	cmd      *exec.Cmd
	in       io.WriteCloser
	out      *bufio.Reader
	tf       *TF
	declared map[string]bool
	ufDecl   map[string]bool
	depth    int
	Queries  int
	Time     time.Duration
	Errors   int
	log      io.Writer
	bin      string
	timeout  int
	// mirror of what the solver holds, so that a query the primary solver gives up on can be
	// put to a second solver from scratch
	decls        []string
	stack        [][]string
	lastFallback bool
	Fallbacks    int // queries answered by the second solver after "unknown" from the first
}

// fallbackBin is asked once, one-shot, when the incremental solver answers unknown.
var fallbackBin = "z3-new"

var solverBin = "z3"

func NewSolver(tf *TF, timeoutMs int, logPath string) (*Solver, error) {
	s := &Solver{tf: tf, declared: map[string]bool{}, ufDecl: map[string]bool{}, bin: solverBin, timeout: timeoutMs}
	if logPath != "" {
		f, err := os.Create(logPath)
		if err == nil {
			s.log = f
		}
	}
	if err := s.start(); err != nil {
		return nil, err
	}
	return s, nil
}

func (s *Solver) start() error {
	args := []string{"-in"}
	if strings.HasPrefix(s.bin, "cvc5") {
		args = []string{"--incremental", "--lang=smt2", "--strings-exp", "--produce-models"}
	}
	s.cmd = exec.Command(s.bin, args...)
	var err error
	s.in, err = s.cmd.StdinPipe()
	if err != nil {
		return err
	}
	o, err := s.cmd.StdoutPipe()
	if err != nil {
		return err
	}
	s.cmd.Stderr = s.cmd.Stdout
	s.out = bufio.NewReaderSize(o, 1<<20)
	if err := s.cmd.Start(); err != nil {
		return err
	}
	s.send("(set-option :global-declarations true)")
	s.send("(set-option :produce-models true)")
	s.send(fmt.Sprintf("(set-option :timeout %d)", s.timeout))
	return nil
}

func (s *Solver) Close() {
	if s.cmd != nil {
		s.in.Close()
		s.cmd.Process.Kill()
		s.cmd.Wait()
	}
}

func (s *Solver) send(line string) {
	if s.log != nil {
		fmt.Fprintln(s.log, line)
	}
	io.WriteString(s.in, line+"\n")
}

// roundtrip sends lines then a marker and returns everything printed before it.
func (s *Solver) roundtrip(lines ...string) []string {
	for _, l := range lines {
		s.send(l)
	}
	s.send(`(echo "<<<done>>>")`)
	var out []string
	for {
		l, err := s.out.ReadString('\n')
		l = strings.TrimSpace(l)
		if strings.Contains(l, "<<<done>>>") {
			break
		}
		if l != "" {
			out = append(out, l)
			if s.log != nil {
				fmt.Fprintln(s.log, "; -> "+l)
			}
		}
		if err != nil {
			out = append(out, "(error \"solver died\")")
			break
		}
	}
	return out
}

func (s *Solver) declare(t *Term) {
	vars := map[string]*Term{}
	t.Vars(vars)
	for _, n := range sortedKeys(vars) {
		if !s.declared[n] {
			s.declared[n] = true
			d := fmt.Sprintf("(declare-const %s %s)", smtName(n), vars[n].Sort.smt())
			s.decls = append(s.decls, d)
			s.send(d)
		}
	}
	for _, n := range s.tf.ufOrd {
		if !s.ufDecl[n] {
			s.ufDecl[n] = true
			s.decls = append(s.decls, s.tf.UFs[n])
			s.send(s.tf.UFs[n])
		}
	}
}

func (s *Solver) Push() { s.send("(push 1)"); s.depth++; s.stack = append(s.stack, nil) }
func (s *Solver) PopTo(d int) {
	if s.depth > d {
		s.send(fmt.Sprintf("(pop %d)", s.depth-d))
		s.depth = d
		if len(s.stack) > d+1 {
			s.stack = s.stack[:d+1]
		}
	}
}
func (s *Solver) Depth() int { return s.depth }

func (s *Solver) Assert(t *Term) {
	s.declare(t)
	a := "(assert " + t.SMT() + ")"
	if len(s.stack) == 0 {
		s.stack = append(s.stack, nil)
	}
	s.stack[len(s.stack)-1] = append(s.stack[len(s.stack)-1], a)
	s.send(a)
}

// secondOpinion puts the whole current problem to the fallback solver.
func (s *Solver) secondOpinion() Verdict {
	v, _ := s.secondOpinionModel(nil)
	return v
}

func (s *Solver) secondOpinionModel(names []string) (Verdict, string) {
	if fallbackBin == "" || fallbackBin == s.bin {
		return Unknown, ""
	}
	var sb strings.Builder
	for _, d := range s.decls {
		sb.WriteString(d + "\n")
	}
	for _, lv := range s.stack {
		for _, a := range lv {
			sb.WriteString(a + "\n")
		}
	}
	sb.WriteString("(set-option :produce-models true)\n(check-sat)\n")
	if len(names) > 0 {
		sb.WriteString("(get-value (" + strings.Join(names, " ") + "))\n")
	}
	secs := s.timeout/1000 + 1
	cmd := exec.Command(fallbackBin, fmt.Sprintf("-T:%d", secs), "-in")
	cmd.Stdin = strings.NewReader(sb.String())
	t0 := time.Now()
	out, _ := cmd.CombinedOutput()
	s.Time += time.Since(t0)
	txt := string(out)
	lines := strings.Split(txt, "\n")
	for i, l := range lines {
		switch strings.TrimSpace(l) {
		case "sat":
			rest := strings.Join(lines[i+1:], "\n")
			if strings.Contains(rest, "(error") {
				return Unknown, ""
			}
			s.Fallbacks++
			return Sat, rest
		case "unsat":
			s.Fallbacks++
			return Unsat, ""
		}
		if strings.Contains(l, "(error") {
			return Unknown, ""
		}
	}
	return Unknown, ""
}

func (s *Solver) Check() Verdict {
	t0 := time.Now()
	out := s.roundtrip("(check-sat)")
	s.Queries++
	d := time.Since(t0)
	s.Time += d
	if d > 2*time.Second && progress {
		fmt.Fprintf(os.Stderr, "[slow query %.1fs]\n", d.Seconds())
	}
	v := Unknown
	for _, l := range out {
		if strings.HasPrefix(l, "(error") {
			s.Errors++
			fmt.Fprintln(os.Stderr, "SOLVER ERROR:", l)
			return Unknown
		}
		switch l {
		case "sat":
			v = Sat
		case "unsat":
			v = Unsat
		case "unknown":
			v = Unknown
		}
	}
	s.lastFallback = false
	if v == Unknown {
		v = s.secondOpinion()
		s.lastFallback = v != Unknown
	}
	return v
}

// CheckWith decides satisfiability of the current stack plus extra.
func (s *Solver) CheckWith(extra ...*Term) Verdict {
	s.Push()
	for _, e := range extra {
		s.Assert(e)
	}
	v := s.Check()
	s.PopTo(s.depth - 1)
	return v
}

// ModelWith returns a model of stack+extra for the given variables (nil if not sat).
func (s *Solver) ModelWith(vars []*Term, extra ...*Term) (Verdict, map[string]string) {
	s.Push()
	defer func() { s.PopTo(s.depth - 1) }()
	for _, e := range extra {
		s.Assert(e)
	}
	v := s.Check()
	if v != Sat {
		return v, nil
	}
	m := map[string]string{}
	if s.lastFallback {
		// the primary solver holds no model: ask the second one for the values as well
		var names []string
		for _, x := range vars {
			if s.declared[x.S] {
				names = append(names, smtName(x.S))
			}
		}
		v2, txt := s.secondOpinionModel(names)
		if v2 != Sat {
			return Unknown, nil
		}
		parseModel(txt, m)
		return Sat, m
	}
	for i := 0; i < len(vars); i += 50 {
		j := i + 50
		if j > len(vars) {
			j = len(vars)
		}
		var names []string
		for _, x := range vars[i:j] {
			if s.declared[x.S] {
				names = append(names, smtName(x.S))
			}
		}
		if len(names) == 0 {
			continue
		}
		out := s.roundtrip("(get-value (" + strings.Join(names, " ") + "))")
		parseModel(strings.Join(out, "\n"), m)
	}
	return Sat, m
}

// parseModel reads "((|a| 1) (|b| "x") (|c| (- 3)) (|d| true))".
func parseModel(txt string, into map[string]string) {
	i := 0
	n := len(txt)
	skip := func() {
		for i < n && (txt[i] == ' ' || txt[i] == '\n' || txt[i] == '\t') {
			i++
		}
	}
	skip()
	if i < n && txt[i] == '(' {
		i++
	}
	for {
		skip()
		if i >= n || txt[i] != '(' {
			return
		}
		i++
		skip()
		var name string
		if txt[i] == '|' {
			j := strings.IndexByte(txt[i+1:], '|')
			name = txt[i+1 : i+1+j]
			i = i + j + 2
		} else {
			j := i
			for j < n && txt[j] != ' ' {
				j++
			}
			name = txt[i:j]
			i = j
		}
		skip()
		// value: atom, string, or parenthesised
		start := i
		if txt[i] == '"' {
			i++
			for i < n {
				if txt[i] == '"' {
					if i+1 < n && txt[i+1] == '"' {
						i += 2
						continue
					}
					i++
					break
				}
				i++
			}
		} else if txt[i] == '(' {
			d := 0
			for i < n {
				if txt[i] == '(' {
					d++
				} else if txt[i] == ')' {
					d--
					if d == 0 {
						i++
						break
					}
				}
				i++
			}
		} else {
			for i < n && txt[i] != ')' && txt[i] != ' ' {
				i++
			}
		}
		into[name] = strings.TrimSpace(txt[start:i])
		skip()
		if i < n && txt[i] == ')' {
			i++
		}
	}
}

// decodeSMTString turns an SMT-LIB string literal (with quotes) into bytes.
func decodeSMTString(lit string) string {
	if len(lit) < 2 || lit[0] != '"' {
		return lit
	}
	s := lit[1 : len(lit)-1]
	var sb strings.Builder
	for i := 0; i < len(s); i++ {
		if s[i] == '"' && i+1 < len(s) && s[i+1] == '"' {
			sb.WriteByte('"')
			i++
			continue
		}
		if s[i] == '\\' && i+1 < len(s) && s[i+1] == 'u' {
			// \u{h..} or \uhhhh
			if i+2 < len(s) && s[i+2] == '{' {
				j := strings.IndexByte(s[i:], '}')
				var v int
				fmt.Sscanf(s[i+3:i+j], "%x", &v)
				sb.WriteString(string(rune(v)))
				i += j
				continue
			}
			if i+5 < len(s) {
				var v int
				fmt.Sscanf(s[i+2:i+6], "%x", &v)
				sb.WriteString(string(rune(v)))
				i += 5
				continue
			}
		}
		if s[i] == '\\' && i+1 < len(s) && s[i+1] == 'x' && i+3 < len(s) {
			var v int
			fmt.Sscanf(s[i+2:i+4], "%x", &v)
			sb.WriteByte(byte(v))
			i += 3
			continue
		}
		sb.WriteByte(s[i])
	}
	return sb.String()
}

func decodeSMTInt(v string) string {
	v = strings.TrimSpace(v)
	if strings.HasPrefix(v, "(-") {
		return "-" + strings.TrimSpace(strings.TrimSuffix(strings.TrimPrefix(v, "(-"), ")"))
	}
	return v
}
