//go:build verif

package main

import (
	_ "github.com/jamespfennell/gtfs"
	_ "github.com/jamespfennell/gtfs/extensions/nyctalerts"
	_ "github.com/jamespfennell/gtfs/extensions/nycttrips"
	_ "github.com/jamespfennell/gtfs/internal/verifh"
	vr "github.com/jamespfennell/gtfs/internal/verifrt"
	_ "github.com/jamespfennell/gtfs/journal"
)

func main() { vr.Main() }
