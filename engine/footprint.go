package main

// Read/write footprints over pre-existing memory (C18).

import (
	"fmt"

	"golang.org/x/tools/go/ssa"
)

type cellKey struct {
	obj  int
	path string
}

type footprint struct {
	label  string
	epoch  int // cells of objects created at or after this epoch are private
	reads  map[cellKey]string
	writes map[cellKey]string
}

func newFootprint(label string, epoch int) *footprint {
	return &footprint{label: label, epoch: epoch, reads: map[cellKey]string{}, writes: map[cellKey]string{}}
}

func (f *footprint) read(p Ptr) {
	if p.Obj.Epoch >= f.epoch && !p.Obj.Released {
		return
	}
	f.reads[cellKey{p.Obj.ID, fmt.Sprint(p.Path)}] = p.Obj.Name
}

func (f *footprint) write(p Ptr, e *Exec) {
	if p.Obj.Epoch >= f.epoch && !p.Obj.Released {
		return
	}
	f.writes[cellKey{p.Obj.ID, fmt.Sprint(p.Path)}] = p.Obj.Name + "@" + e.curSite()
}

func (f *footprint) readMap(m *MapObj) {
	if m.Epoch >= f.epoch {
		return
	}
	f.reads[cellKey{-m.ID, ""}] = "map " + m.Name
}

func (f *footprint) writeMap(m *MapObj, e *Exec) {
	if m.Epoch >= f.epoch {
		return
	}
	f.writes[cellKey{-m.ID, ""}] = "map " + m.Name + "@" + e.curSite()
}

func (e *Exec) curSite() string {
	if e.frame != nil {
		return e.siteOf(e.frame)
	}
	return "?"
}

func init() {
	// Footprint(label, f): run f recording which pre-existing memory cells it reads and writes.
	intrinsics["Footprint"] = func(e *Exec, fr *Frame, fn *ssa.Function, a []Value) Value {
		label := e.tagOf(a[0])
		e.epoch++
		fp := newFootprint(label, e.epoch)
		prev := e.curFoot
		e.curFoot = fp
		e.frame = fr
		e.callFuncV(fr, nil, a[1].(FuncV), nil)
		e.curFoot = prev
		e.footprints[label] = fp
		e.epoch++
		return nil
	}
	// ConflictFree(a, b): no cell written by one call is read or written by the other.
	intrinsics["ConflictFree"] = func(e *Exec, fr *Frame, fn *ssa.Function, a []Value) Value {
		fa, fb := e.footprints[e.tagOf(a[0])], e.footprints[e.tagOf(a[1])]
		if fa == nil || fb == nil {
			e.unsupported("ConflictFree on unknown footprints")
		}
		check := func(w, o *footprint) (string, bool) {
			for k, site := range w.writes {
				if _, ok := o.writes[k]; ok {
					return "write/write on " + site, true
				}
				if _, ok := o.reads[k]; ok {
					return "write/read on " + site, true
				}
			}
			return "", false
		}
		if msg, bad := check(fa, fb); bad {
			e.pathAux["conflict"] = msg
			return e.tf.Bool(false)
		}
		if msg, bad := check(fb, fa); bad {
			e.pathAux["conflict"] = msg
			return e.tf.Bool(false)
		}
		return e.tf.Bool(true)
	}
	intrinsics["WritesNothingShared"] = func(e *Exec, fr *Frame, fn *ssa.Function, a []Value) Value {
		f := e.footprints[e.tagOf(a[0])]
		if f == nil {
			e.unsupported("unknown footprint")
		}
		for _, site := range f.writes {
			e.pathAux["conflict"] = "write to shared " + site
			return e.tf.Bool(false)
		}
		return e.tf.Bool(true)
	}
	intrinsics["Repeat"] = func(e *Exec, fr *Frame, fn *ssa.Function, a []Value) Value { return e.tf.Int(1) }
}
