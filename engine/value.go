package main

// Engine values. All values are immutable trees (stores rebuild the spine),
// so they can be shared freely. Pointers are concrete (object, path), with an
// optional nil-condition term ("maybe-nil").

import (
	"fmt"
	"go/types"
	"strings"

	"golang.org/x/tools/go/ssa"
)

type Value interface{}

type Obj struct {
	ID    int
	V     Value
	Typ   types.Type
	Aux   interface{} // engine side data (table handle, location, regexp, ...)
	Name  string
	Epoch int // creation epoch (footprint analysis)
	// Released: handed to a sync.Pool and not taken out again: any further access by the releasing
	// call can coincide with another goroutine's use of the object
	Released bool
}

type Ptr struct {
	Obj     *Obj
	Path    []int
	NilCond *Term // nil: definitely non-nil (when Obj != nil)
}

func (p Ptr) IsNil() bool { return p.Obj == nil }

type StructV struct{ F []Value }
type ArrayV struct{ E []Value }
type SliceV struct {
	Arr           *Obj
	Off, Len, Cap int
}
type MapObj struct {
	ID    int
	Keys  []Value
	Vals  []Value
	KT    types.Type
	VT    types.Type
	Epoch int
	Name  string
}
type MapV struct{ M *MapObj }
type IfaceV struct {
	T types.Type // nil: nil interface
	V Value
}
type FuncV struct {
	Fn   *ssa.Function
	Env  []Value
	Stub string // engine-provided function value
	Aux  interface{}
}
type TupleV []Value

// StrV is a Go string: either character-level (concrete length, one Int term
// per byte) or an SMT String term.
type StrV struct {
	Chars []*Term
	T     *Term
	IsCh  bool
}

// TimeV abstracts time.Time: unix seconds + location object (nil = UTC).
type TimeV struct {
	Sec *Term
	Loc *Obj
}

// BytesV is a []byte / byte stream value of the hash machinery (chunk list).
type Chunk struct {
	Kind  string // "num" | "str"
	Width int    // bytes for num
	T     *Term  // Int term (num) or StrV-backed bytes term
	S     *StrV
}

type mapIter struct {
	m    *MapObj
	keys []Value
	i    int
	str  *StrV
}

func chStr(tf *TF, s string) StrV {
	cs := make([]*Term, len(s))
	for i := 0; i < len(s); i++ {
		cs[i] = tf.Int(int64(s[i]))
	}
	return StrV{Chars: cs, IsCh: true}
}

func (s StrV) Const() (string, bool) {
	if s.IsCh {
		b := make([]byte, len(s.Chars))
		for i, c := range s.Chars {
			if c.Op != "int" {
				return "", false
			}
			b[i] = byte(c.I.Int64())
		}
		return string(b), true
	}
	if s.T.Op == "sconst" {
		return s.T.S, true
	}
	return "", false
}

// Term converts to an SMT String term.
func (s StrV) Term(tf *TF) *Term {
	if !s.IsCh {
		return s.T
	}
	var parts []*Term
	var lit []byte
	for _, c := range s.Chars {
		if c.Op == "int" {
			lit = append(lit, byte(c.I.Int64()))
			continue
		}
		if len(lit) > 0 {
			parts = append(parts, tf.Str(string(lit)))
			lit = nil
		}
		parts = append(parts, tf.FromCode(c))
	}
	if len(lit) > 0 || len(parts) == 0 {
		parts = append(parts, tf.Str(string(lit)))
	}
	return tf.Concat(parts...)
}

func (s StrV) Len(tf *TF) *Term {
	if s.IsCh {
		return tf.Int(int64(len(s.Chars)))
	}
	return tf.StrLen(s.T)
}

func strEq(tf *TF, a, b StrV) *Term {
	if a.IsCh && b.IsCh {
		if len(a.Chars) != len(b.Chars) {
			return tf.Bool(false)
		}
		var cs []*Term
		for i := range a.Chars {
			cs = append(cs, tf.Eq(a.Chars[i], b.Chars[i]))
		}
		return tf.And(cs...)
	}
	return tf.Eq(a.Term(tf), b.Term(tf))
}

func strConcat(tf *TF, a, b StrV) StrV {
	if a.IsCh && b.IsCh {
		cs := make([]*Term, 0, len(a.Chars)+len(b.Chars))
		cs = append(cs, a.Chars...)
		cs = append(cs, b.Chars...)
		return StrV{Chars: cs, IsCh: true}
	}
	return StrV{T: tf.Concat(a.Term(tf), b.Term(tf))}
}

// ---- paths

func getPath(v Value, path []int) Value {
	for _, i := range path {
		switch x := v.(type) {
		case StructV:
			v = x.F[i]
		case ArrayV:
			v = x.E[i]
		default:
			panic(fmt.Sprintf("getPath: bad container %T", v))
		}
	}
	return v
}

func setPath(v Value, path []int, nv Value) Value {
	if len(path) == 0 {
		return nv
	}
	i := path[0]
	switch x := v.(type) {
	case StructV:
		f := make([]Value, len(x.F))
		copy(f, x.F)
		f[i] = setPath(x.F[i], path[1:], nv)
		return StructV{F: f}
	case ArrayV:
		f := make([]Value, len(x.E))
		copy(f, x.E)
		f[i] = setPath(x.E[i], path[1:], nv)
		return ArrayV{E: f}
	}
	panic(fmt.Sprintf("setPath: bad container %T", v))
}

func samePath(a, b []int) bool {
	if len(a) != len(b) {
		return false
	}
	for i := range a {
		if a[i] != b[i] {
			return false
		}
	}
	return true
}

func appendPath(p []int, i int) []int {
	q := make([]int, len(p)+1)
	copy(q, p)
	q[len(p)] = i
	return q
}

func isTimeType(t types.Type) bool {
	n, ok := t.(*types.Named)
	return ok && n.Obj().Pkg() != nil && n.Obj().Pkg().Path() == "time" && n.Obj().Name() == "Time"
}

func typeKey(t types.Type) string { return types.TypeString(t, nil) }

func describeValue(v Value) string {
	switch x := v.(type) {
	case nil:
		return "<nil>"
	case *Term:
		return x.SMT()
	case StrV:
		if s, ok := x.Const(); ok {
			return fmt.Sprintf("%q", s)
		}
		return "str"
	case Ptr:
		if x.Obj == nil {
			return "nilptr"
		}
		return fmt.Sprintf("&obj%d%v", x.Obj.ID, x.Path)
	case StructV:
		var xs []string
		for _, f := range x.F {
			xs = append(xs, describeValue(f))
		}
		return "{" + strings.Join(xs, ",") + "}"
	}
	return fmt.Sprintf("%T", v)
}
