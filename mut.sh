#!/bin/bash
# usage: mut.sh '<sed expr>' <file> -- <ssasym args...>   (scratch mutation test; always restores /repo)
expr="$1"; file="$2"; shift 3
cd /repo && sed -i "$expr" "$file" && git diff --stat | tail -1
cd /verif && timeout ${MUT_TIMEOUT:-600} ./bin/ssasym "$@" 2>&1 | grep -v "model=" | cut -c1-300 | tail -8
git -C /repo checkout -- . 
