package main

// Pure string -> string library functions evaluated by the real function when
// the argument is concrete (file and member names, constants); a symbolic
// argument ends the path as unsupported.

import (
	"path"
	"path/filepath"
	"strings"

	"golang.org/x/tools/go/ssa"
)

func init() {
	pure := map[string]func(string) string{
		"path.Base":           path.Base,
		"path.Ext":            path.Ext,
		"path.Clean":          path.Clean,
		"path.Dir":            path.Dir,
		"path/filepath.Base":  filepath.Base,
		"path/filepath.Ext":   filepath.Ext,
		"path/filepath.Clean": filepath.Clean,
		"path/filepath.Dir":   filepath.Dir,
		"strings.ToLower":     strings.ToLower,
		"strings.ToUpper":     strings.ToUpper,
	}
	for name, f := range pure {
		name, f := name, f
		if _, exists := stubs[name]; exists {
			continue
		}
		stubs[name] = func(e *Exec, fr *Frame, fn *ssa.Function, a []Value) Value {
			s, ok := a[0].(StrV).Const()
			if !ok {
				e.unsupported("%s of a symbolic string", name)
			}
			return chStr(e.tf, f(s))
		}
	}
}

// foldEq: two bytes are equal under ASCII case folding.
func foldEq(tf *TF, a, b *Term) *Term {
	lowerA := tf.And(tf.Le(tf.Int('a'), a), tf.Le(a, tf.Int('z')))
	upperA := tf.And(tf.Le(tf.Int('A'), a), tf.Le(a, tf.Int('Z')))
	return tf.Or(tf.Eq(a, b), tf.And(lowerA, tf.Eq(tf.Sub(a, tf.Int(32)), b)), tf.And(upperA, tf.Eq(tf.Add(a, tf.Int(32)), b)))
}

func init() {
	// strings.EqualFold over ASCII (the harness alphabet); longer symbolic strings than 8 bytes are unsupported.
	stubs["strings.EqualFold"] = func(e *Exec, fr *Frame, fn *ssa.Function, a []Value) Value {
		tf := e.tf
		x, y := a[0].(StrV), a[1].(StrV)
		if cx, ok := x.Const(); ok {
			if cy, ok := y.Const(); ok {
				return tf.Bool(strings.EqualFold(cx, cy))
			}
		}
		chars := func(s StrV) []*Term {
			if s.IsCh {
				return s.Chars
			}
			st := s.Term(tf)
			for n := 0; n <= 8; n++ {
				if e.decide(tf.Eq(tf.StrLen(st), tf.Int(int64(n)))) {
					cs := make([]*Term, n)
					for i := range cs {
						cs[i] = tf.CodeAt(st, tf.Int(int64(i)))
					}
					return cs
				}
			}
			e.unsupported("strings.EqualFold of a symbolic string longer than 8")
			return nil
		}
		cx, cy := chars(x), chars(y)
		if len(cx) != len(cy) {
			return tf.Bool(false)
		}
		eq := tf.Bool(true)
		for i := range cx {
			eq = tf.And(eq, foldEq(tf, cx[i], cy[i]))
		}
		return eq
	}
}
