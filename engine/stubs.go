package main

// Summaries of standard-library entry points (the environment). Each summary
// is part of the claim and is listed in the evidence under stubs_used.

import (
	"fmt"
	"go/types"
	"math"
	"math/big"
	"strconv"
	"strings"
	"time"
	"unicode"

	"golang.org/x/tools/go/ssa"
)

type stubFn func(e *Exec, fr *Frame, fn *ssa.Function, args []Value) Value

var stubs = map[string]stubFn{}
var funcStubs = map[string]func(e *Exec, fr *Frame, fv FuncV, args []Value) Value{}
var opaqueMethods = map[string]func(e *Exec, fr *Frame, recv IfaceV, args []Value) Value{}

func foreignGlobalValue(e *Exec, name string, et types.Type) (Value, bool) {
	switch name {
	case "time.UTC":
		return Ptr{Obj: e.locObj("UTC")}, true
	case "time.Local":
		return Ptr{Obj: e.locObj("Local")}, true
	}
	return nil, false
}

func (e *Exec) locObj(name string) *Obj {
	if o, ok := e.locs[name]; ok {
		return o
	}
	var l *time.Location
	switch name {
	case "UTC":
		l = time.UTC
	case "Local":
		l = time.Local
	default:
		var err error
		l, err = time.LoadLocation(name)
		if err != nil {
			return nil
		}
	}
	o := e.newObj(StructV{}, nil)
	o.Aux = l
	o.Name = "loc:" + name
	o.Epoch = 0
	e.locs[name] = o
	return o
}

// locOf normalises a *time.Location pointer to the engine's location object (nil = UTC).
func (e *Exec) locOf(p Ptr) *Obj {
	if p.Obj == nil {
		return nil
	}
	if p.Obj == e.locs["UTC"] {
		return nil
	}
	return p.Obj
}

func (e *Exec) newError(msg string) IfaceV {
	o := e.newObj(StructV{}, nil)
	o.Name = "error:" + msg
	return IfaceV{T: opaqueTypeOf("error"), V: Ptr{Obj: o}}
}

func (e *Exec) strArg(v Value) StrV { return v.(StrV) }

// resolveStr removes top-level conditionals from a string term by deciding
// their conditions on this path; constant results become character-level strings.
func (e *Exec) resolveStr(s StrV) StrV {
	for !s.IsCh && s.T.Op == "ite" {
		if e.decide(s.T.Args[0]) {
			s = StrV{T: s.T.Args[1]}
		} else {
			s = StrV{T: s.T.Args[2]}
		}
	}
	if !s.IsCh && s.T.Op == "sconst" {
		return chStr(e.tf, s.T.S)
	}
	return s
}

func isSpaceTerm(tf *TF, c *Term) *Term {
	return tf.Or(tf.Eq(c, tf.Int(32)), tf.And(tf.Le(tf.Int(9), c), tf.Le(c, tf.Int(13))))
}

func isDigitTerm(tf *TF, c *Term) *Term {
	return tf.And(tf.Le(tf.Int('0'), c), tf.Le(c, tf.Int('9')))
}

const reDigits = `(re.+ (re.range "0" "9"))`

// atoi models strconv.Atoi / ParseInt(s,10,bits): returns (value, ok) on this path.
func (e *Exec) atoi(s StrV, bits int) (*Term, bool) {
	tf := e.tf
	s = e.resolveStr(s)
	if cs, ok := s.Const(); ok {
		v, err := strconv.ParseInt(cs, 10, bits)
		return tf.Int(v), err == nil
	}
	lo, hi := typeRange(bits, true)
	if s.IsCh {
		n := len(s.Chars)
		if n == 0 {
			return tf.Int(0), false
		}
		if n > 18 {
			e.unsupported("Atoi on symbolic string longer than 18")
		}
		digits := func(cs []*Term) (*Term, *Term) {
			var all []*Term
			val := tf.Int(0)
			for _, c := range cs {
				all = append(all, isDigitTerm(tf, c))
				val = tf.Add(tf.Mul(val, tf.Int(10)), tf.Sub(c, tf.Int('0')))
			}
			return tf.And(all...), val
		}
		okAll, vAll := digits(s.Chars)
		if e.decide(okAll) {
			if e.decide(tf.And(tf.Le(tf.IntB(lo), vAll), tf.Le(vAll, tf.IntB(hi)))) {
				return vAll, true
			}
			return tf.Int(0), false
		}
		if n >= 2 {
			okR, vR := digits(s.Chars[1:])
			if e.decide(tf.And(tf.Eq(s.Chars[0], tf.Int('-')), okR)) {
				v := tf.Neg(vR)
				if e.decide(tf.Le(tf.IntB(lo), v)) {
					return v, true
				}
				return tf.Int(0), false
			}
			if e.decide(tf.And(tf.Eq(s.Chars[0], tf.Int('+')), okR)) {
				if e.decide(tf.Le(vR, tf.IntB(hi))) {
					return vR, true
				}
				return tf.Int(0), false
			}
		}
		return tf.Int(0), false
	}
	t := s.T
	if e.decide(tf.InRe(t, reDigits)) {
		v := tf.ToInt(t)
		if e.decide(tf.Le(v, tf.IntB(hi))) {
			return v, true
		}
		return tf.Int(0), false
	}
	if e.decide(tf.InRe(t, `(re.++ (str.to_re "-") `+reDigits+`)`)) {
		v := tf.Neg(tf.ToInt(tf.Substr(t, tf.Int(1), tf.Sub(tf.StrLen(t), tf.Int(1)))))
		if e.decide(tf.Le(tf.IntB(lo), v)) {
			return v, true
		}
		return tf.Int(0), false
	}
	if e.decide(tf.InRe(t, `(re.++ (str.to_re "+") `+reDigits+`)`)) {
		v := tf.ToInt(tf.Substr(t, tf.Int(1), tf.Sub(tf.StrLen(t), tf.Int(1))))
		if e.decide(tf.Le(v, tf.IntB(hi))) {
			return v, true
		}
		return tf.Int(0), false
	}
	return tf.Int(0), false
}

func (e *Exec) trimSpace(s StrV) StrV {
	tf := e.tf
	if cs, ok := s.Const(); ok {
		return chStr(tf, strings.TrimSpace(cs))
	}
	if s.IsCh {
		cs := s.Chars
		for len(cs) > 0 && e.decide(isSpaceTerm(tf, cs[0])) {
			cs = cs[1:]
		}
		for len(cs) > 0 && e.decide(isSpaceTerm(tf, cs[len(cs)-1])) {
			cs = cs[:len(cs)-1]
		}
		return StrV{Chars: cs, IsCh: true}
	}
	// SMT string over the input alphabet (only ' ' is a space there)
	// peel spaces one at a time (strings are short: the loops are bounded by the length bound of fresh strings)
	cur := s.T
	for i := 0; i < 16 && e.decide(tf.PrefixOf(tf.Str(" "), cur)); i++ {
		cur = tf.Substr(cur, tf.Int(1), tf.Sub(tf.StrLen(cur), tf.Int(1)))
	}
	for i := 0; i < 16 && e.decide(tf.SuffixOf(tf.Str(" "), cur)); i++ {
		cur = tf.Substr(cur, tf.Int(0), tf.Sub(tf.StrLen(cur), tf.Int(1)))
	}
	if e.decide(tf.Or(tf.PrefixOf(tf.Str(" "), cur), tf.SuffixOf(tf.Str(" "), cur))) {
		e.unsupported("TrimSpace of a string with more than 16 spaces at one end")
	}
	return StrV{T: cur}
}

// sprintf renders the subset of verbs the repository uses.
func (e *Exec) sprintf(format string, args []Value) StrV {
	tf := e.tf
	out := chStr(tf, "")
	ai := 0
	lit := func(s string) { out = strConcat(tf, out, chStr(tf, s)) }
	for i := 0; i < len(format); i++ {
		c := format[i]
		if c != '%' {
			lit(string(c))
			continue
		}
		i++
		if i >= len(format) {
			break
		}
		if format[i] == '%' {
			lit("%")
			continue
		}
		// flags/width
		j := i
		for j < len(format) && strings.IndexByte("+-# 0123456789.", format[j]) >= 0 {
			j++
		}
		spec := format[i:j]
		verb := format[j]
		i = j
		if verb == 'w' {
			verb = 'v'
		}
		if ai >= len(args) {
			lit("%!" + string(verb) + "(MISSING)")
			continue
		}
		iv, _ := args[ai].(IfaceV)
		ai++
		switch v := iv.V.(type) {
		case StrV:
			switch verb {
			case 's', 'v':
				out = strConcat(tf, out, v)
			case 'q':
				out = strConcat(tf, strConcat(tf, out, chStr(tf, `"`)), strConcat(tf, v, chStr(tf, `"`)))
			default:
				lit("?")
			}
		case *Term:
			if v.Sort == SInt && (verb == 'd' || verb == 'v') {
				if v.Op == "int" {
					lit(fmt.Sprintf("%"+spec+"d", v.I))
				} else if spec == "02" {
					out = strConcat(tf, out, e.pad2(v))
				} else if spec == "" {
					out = strConcat(tf, out, StrV{T: tf.DecInt(v)})
				} else {
					e.unsupported("Sprintf %%%s%c of symbolic int", spec, verb)
				}
			} else if v.Sort == SBool && v.Op == "bool" {
				lit(fmt.Sprint(v.B))
			} else {
				lit("?")
			}
		default:
			lit("?")
		}
	}
	return out
}

// pad2 is fmt's %02d. For 0 <= x <= 99 it is two digit characters.
func (e *Exec) pad2(x *Term) StrV {
	tf := e.tf
	if x.Lo != nil && x.Hi != nil && x.Lo.Sign() >= 0 && x.Hi.Cmp(bi(99)) <= 0 {
		return StrV{IsCh: true, Chars: []*Term{tf.Add(tf.Int('0'), tf.DivT(x, tf.Int(10))), tf.Add(tf.Int('0'), tf.RemT(x, tf.Int(10)))}}
	}
	if e.decide(tf.And(tf.Le(tf.Int(0), x), tf.Le(x, tf.Int(99)))) {
		// re-bound on this path
		d1 := tf.mk(&Term{Op: "divt", Sort: SInt, Args: []*Term{x, tf.Int(10)}, Lo: bi(0), Hi: bi(9)})
		d0 := tf.mk(&Term{Op: "remt", Sort: SInt, Args: []*Term{x, tf.Int(10)}, Lo: bi(-9), Hi: bi(9)})
		return StrV{IsCh: true, Chars: []*Term{tf.Add(tf.Int('0'), d1), tf.Add(tf.Int('0'), d0)}}
	}
	return StrV{T: tf.DecInt(x)}
}

func strSliceArg(e *Exec, v Value) []Value {
	s := v.(SliceV)
	out := make([]Value, s.Len)
	for i := range out {
		out[i] = getPath(s.Arr.V, []int{s.Off + i})
	}
	return out
}

func init() {
	noop := func(ret func(e *Exec) Value) stubFn {
		return func(e *Exec, fr *Frame, fn *ssa.Function, a []Value) Value { return ret(e) }
	}
	nilRet := noop(func(e *Exec) Value { return nil })
	nerr := noop(func(e *Exec) Value { return TupleV{e.tf.Int(0), IfaceV{}} })
	for _, n := range []string{"log.Printf", "log.Print", "log.Println"} {
		stubs[n] = nilRet
	}
	for _, n := range []string{"fmt.Printf", "fmt.Println", "fmt.Print"} {
		stubs[n] = nerr
	}
	stubs["fmt.Sprintf"] = func(e *Exec, fr *Frame, fn *ssa.Function, a []Value) Value {
		f, ok := a[0].(StrV).Const()
		if !ok {
			e.unsupported("Sprintf with symbolic format")
		}
		return e.sprintf(f, strSliceArg(e, a[1]))
	}
	stubs["fmt.Errorf"] = func(e *Exec, fr *Frame, fn *ssa.Function, a []Value) Value {
		f, _ := a[0].(StrV).Const()
		return e.newError(f)
	}
	stubs["errors.New"] = func(e *Exec, fr *Frame, fn *ssa.Function, a []Value) Value {
		f, _ := a[0].(StrV).Const()
		return e.newError(f)
	}
	opaqueMethods["$error.Error"] = func(e *Exec, fr *Frame, recv IfaceV, a []Value) Value {
		return chStr(e.tf, "error")
	}
	stubs["strconv.Itoa"] = func(e *Exec, fr *Frame, fn *ssa.Function, a []Value) Value {
		t := a[0].(*Term)
		if t.Op == "int" {
			return chStr(e.tf, t.I.String())
		}
		return StrV{T: e.tf.DecInt(t)}
	}
	stubs["strconv.FormatInt"] = func(e *Exec, fr *Frame, fn *ssa.Function, a []Value) Value {
		t := a[0].(*Term)
		if b, ok := constInt(a[1].(*Term)); !ok || b != 10 {
			e.unsupported("FormatInt base")
		}
		if t.Op == "int" {
			return chStr(e.tf, t.I.String())
		}
		return StrV{T: e.tf.DecInt(t)}
	}
	stubs["strconv.Atoi"] = func(e *Exec, fr *Frame, fn *ssa.Function, a []Value) Value {
		v, ok := e.atoi(a[0].(StrV), 64)
		if ok {
			return TupleV{v, IfaceV{}}
		}
		return TupleV{e.tf.Int(0), e.newError("strconv.Atoi")}
	}
	stubs["strconv.ParseInt"] = func(e *Exec, fr *Frame, fn *ssa.Function, a []Value) Value {
		base, _ := constInt(a[1].(*Term))
		bits, _ := constInt(a[2].(*Term))
		if base != 10 {
			e.unsupported("ParseInt base %d", base)
		}
		if bits == 0 {
			bits = 64
		}
		v, ok := e.atoi(a[0].(StrV), bits)
		if ok {
			return TupleV{v, IfaceV{}}
		}
		return TupleV{e.tf.Int(0), e.newError("strconv.ParseInt")}
	}
	stubs["strconv.ParseFloat"] = func(e *Exec, fr *Frame, fn *ssa.Function, a []Value) Value {
		s := a[0].(StrV)
		bits, _ := constInt(a[1].(*Term))
		if cs, ok := s.Const(); ok {
			f, err := strconv.ParseFloat(cs, bits)
			if err != nil {
				return TupleV{e.tf.Int(0), e.newError("ParseFloat")}
			}
			return TupleV{e.tf.IntB(new(big.Int).SetUint64(math.Float64bits(f))), IfaceV{}}
		}
		t := s.Term(e.tf)
		sfx := itoa(bits)
		if e.decide(e.tf.UF("pf_ok"+sfx, SBool, t)) {
			return TupleV{e.tf.UF("pf_val"+sfx, SInt, t), IfaceV{}}
		}
		return TupleV{e.tf.Int(0), e.newError("ParseFloat")}
	}
	stubs["strings.TrimSpace"] = func(e *Exec, fr *Frame, fn *ssa.Function, a []Value) Value {
		return e.trimSpace(a[0].(StrV))
	}
	stubs["strings.HasPrefix"] = func(e *Exec, fr *Frame, fn *ssa.Function, a []Value) Value {
		s, p := a[0].(StrV), a[1].(StrV)
		if s.IsCh && p.IsCh {
			if len(p.Chars) > len(s.Chars) {
				return e.tf.Bool(false)
			}
			return strEq(e.tf, StrV{Chars: s.Chars[:len(p.Chars)], IsCh: true}, p)
		}
		return e.tf.PrefixOf(p.Term(e.tf), s.Term(e.tf))
	}
	stubs["strings.TrimPrefix"] = func(e *Exec, fr *Frame, fn *ssa.Function, a []Value) Value {
		s, p := a[0].(StrV), a[1].(StrV)
		if s.IsCh && p.IsCh {
			if len(p.Chars) > len(s.Chars) {
				return s
			}
			if e.decide(strEq(e.tf, StrV{Chars: s.Chars[:len(p.Chars)], IsCh: true}, p)) {
				return StrV{Chars: s.Chars[len(p.Chars):], IsCh: true}
			}
			return s
		}
		st, pt := s.Term(e.tf), p.Term(e.tf)
		if e.decide(e.tf.PrefixOf(pt, st)) {
			return StrV{T: e.tf.Substr(st, e.tf.StrLen(pt), e.tf.Sub(e.tf.StrLen(st), e.tf.StrLen(pt)))}
		}
		return s
	}
	stubs["strings.TrimSuffix"] = func(e *Exec, fr *Frame, fn *ssa.Function, a []Value) Value {
		s, p := a[0].(StrV), a[1].(StrV)
		if s.IsCh && p.IsCh {
			if len(p.Chars) > len(s.Chars) {
				return s
			}
			if e.decide(strEq(e.tf, StrV{Chars: s.Chars[len(s.Chars)-len(p.Chars):], IsCh: true}, p)) {
				return StrV{Chars: s.Chars[:len(s.Chars)-len(p.Chars)], IsCh: true}
			}
			return s
		}
		st, pt := s.Term(e.tf), p.Term(e.tf)
		if e.decide(e.tf.SuffixOf(pt, st)) {
			return StrV{T: e.tf.Substr(st, e.tf.Int(0), e.tf.Sub(e.tf.StrLen(st), e.tf.StrLen(pt)))}
		}
		return s
	}
	stubs["strings.HasSuffix"] = func(e *Exec, fr *Frame, fn *ssa.Function, a []Value) Value {
		s, p := a[0].(StrV), a[1].(StrV)
		if s.IsCh && p.IsCh {
			if len(p.Chars) > len(s.Chars) {
				return e.tf.Bool(false)
			}
			return strEq(e.tf, StrV{Chars: s.Chars[len(s.Chars)-len(p.Chars):], IsCh: true}, p)
		}
		return e.tf.SuffixOf(p.Term(e.tf), s.Term(e.tf))
	}
	stubs["strings.Contains"] = func(e *Exec, fr *Frame, fn *ssa.Function, a []Value) Value {
		return e.tf.Contains(a[0].(StrV).Term(e.tf), a[1].(StrV).Term(e.tf))
	}
	stubs["strings.LastIndex"] = func(e *Exec, fr *Frame, fn *ssa.Function, a []Value) Value {
		s, sub := e.resolveStr(a[0].(StrV)), a[1].(StrV)
		if cs, ok := s.Const(); ok {
			if cu, ok := sub.Const(); ok {
				return e.tf.Int(int64(strings.LastIndex(cs, cu)))
			}
		}
		if s.IsCh && sub.IsCh && len(sub.Chars) == 1 {
			for i := len(s.Chars) - 1; i >= 0; i-- {
				if e.decide(e.tf.Eq(s.Chars[i], sub.Chars[0])) {
					return e.tf.Int(int64(i))
				}
			}
			return e.tf.Int(-1)
		}
		e.unsupported("strings.LastIndex on symbolic-length string")
		return nil
	}
	// strings.Index / strings.Cut on character-level strings with a one-character separator
	firstIndex := func(e *Exec, s, sub StrV) int {
		if cs, ok := s.Const(); ok {
			if cu, ok := sub.Const(); ok {
				return strings.Index(cs, cu)
			}
		}
		if s.IsCh && sub.IsCh && len(sub.Chars) == 1 {
			for i := 0; i < len(s.Chars); i++ {
				if e.decide(e.tf.Eq(s.Chars[i], sub.Chars[0])) {
					return i
				}
			}
			return -1
		}
		e.unsupported("strings.Index/Cut on a symbolic-length string")
		return -1
	}
	stubs["strings.Index"] = func(e *Exec, fr *Frame, fn *ssa.Function, a []Value) Value {
		return e.tf.Int(int64(firstIndex(e, e.resolveStr(a[0].(StrV)), a[1].(StrV))))
	}
	stubs["strings.Cut"] = func(e *Exec, fr *Frame, fn *ssa.Function, a []Value) Value {
		s := e.resolveStr(a[0].(StrV))
		sep := a[1].(StrV)
		i := firstIndex(e, s, sep)
		if i < 0 {
			return TupleV{s, chStr(e.tf, ""), e.tf.Bool(false)}
		}
		if !s.IsCh {
			cs, _ := s.Const()
			s = chStr(e.tf, cs)
		}
		n := 1
		if c, ok := sep.Const(); ok {
			n = len(c)
		}
		return TupleV{StrV{Chars: s.Chars[:i], IsCh: true}, StrV{Chars: s.Chars[i+n:], IsCh: true}, e.tf.Bool(true)}
	}
	stubs["unicode.IsSpace"] = func(e *Exec, fr *Frame, fn *ssa.Function, a []Value) Value {
		c := a[0].(*Term)
		if c.Op == "int" {
			return e.tf.Bool(unicode.IsSpace(rune(c.I.Int64())))
		}
		return isSpaceTerm(e.tf, c)
	}
	// insertion sort is stable: the same summary serves sort.SliceStable
	defer func() { stubs["sort.SliceStable"] = stubs["sort.Slice"] }()
	stubs["sort.Slice"] = func(e *Exec, fr *Frame, fn *ssa.Function, a []Value) Value {
		sl, ok := a[0].(IfaceV).V.(SliceV)
		if !ok {
			e.unsupported("sort.Slice on non-slice")
		}
		less := a[1].(FuncV)
		for i := 1; i < sl.Len; i++ {
			for j := i; j > 0; j-- {
				r := e.callFuncV(fr, nil, less, []Value{e.tf.Int(int64(j)), e.tf.Int(int64(j - 1))}).(*Term)
				if !e.decide(r) {
					break
				}
				pa := Ptr{Obj: sl.Arr, Path: []int{sl.Off + j}}
				pb := Ptr{Obj: sl.Arr, Path: []int{sl.Off + j - 1}}
				va, vb := e.load(pa), e.load(pb)
				e.store(pa, vb)
				e.store(pb, va)
			}
		}
		return nil
	}
	stubs["sort.Strings"] = func(e *Exec, fr *Frame, fn *ssa.Function, a []Value) Value {
		sl := a[0].(SliceV)
		for i := 1; i < sl.Len; i++ {
			for j := i; j > 0; j-- {
				pa := Ptr{Obj: sl.Arr, Path: []int{sl.Off + j}}
				pb := Ptr{Obj: sl.Arr, Path: []int{sl.Off + j - 1}}
				va, vb := e.load(pa), e.load(pb)
				if !e.decide(e.strLess(va.(StrV), vb.(StrV))) {
					break
				}
				e.store(pa, vb)
				e.store(pb, va)
			}
		}
		return nil
	}
}

// flattenLeaves lists the scalar leaves of a value (for uninterpreted encoders).
func (e *Exec) flattenLeaves(v Value, out *[]*Term, depth int) {
	if depth > 6 {
		return
	}
	switch x := v.(type) {
	case *Term:
		*out = append(*out, x)
	case StrV:
		*out = append(*out, x.Term(e.tf))
	case TimeV:
		*out = append(*out, x.Sec)
	case StructV:
		for _, f := range x.F {
			e.flattenLeaves(f, out, depth+1)
		}
	case SliceV:
		*out = append(*out, e.tf.Int(int64(x.Len)))
		for i := 0; i < x.Len; i++ {
			e.flattenLeaves(getPath(x.Arr.V, []int{x.Off + i}), out, depth+1)
		}
	case Ptr:
		if x.Obj != nil {
			e.flattenLeaves(getPath(x.Obj.V, x.Path), out, depth+1)
		}
	case IfaceV:
		e.flattenLeaves(x.V, out, depth+1)
	}
}

func init() {
	// json.Marshal is an uninterpreted function of the scalar leaves of its argument.
	stubs["encoding/json.Marshal"] = func(e *Exec, fr *Frame, fn *ssa.Function, a []Value) Value {
		iv := a[0].(IfaceV)
		var leaves []*Term
		e.flattenLeaves(iv.V, &leaves, 0)
		name := "json_" + sanitize(typeKey(iv.T)) + "_" + itoa(len(leaves))
		return TupleV{BytesV{S: StrV{T: e.tf.UF(name, SStr, leaves...)}}, IfaceV{}}
	}
}

// sync.Map as an engine map hung off the receiver object (so package-level
// caches introduced by a change are visible to the history / footprint checks).
func (e *Exec) syncMapOf(p Ptr) *MapObj {
	key := fmt.Sprintf("syncmap:%d%v", p.Obj.ID, p.Path)
	if m, ok := e.pathAux[key].(*MapObj); ok {
		return m
	}
	e.nextObj++
	m := &MapObj{ID: e.nextObj, Epoch: p.Obj.Epoch, Name: "sync.Map " + p.Obj.Name}
	e.pathAux[key] = m
	return m
}

func init() {
	stubs["(*sync.Map).Load"] = func(e *Exec, fr *Frame, fn *ssa.Function, a []Value) Value {
		v, ok := e.mapGet(e.syncMapOf(a[0].(Ptr)), a[1])
		if !ok {
			return TupleV{IfaceV{}, e.tf.Bool(false)}
		}
		return TupleV{v, e.tf.Bool(true)}
	}
	stubs["(*sync.Map).Store"] = func(e *Exec, fr *Frame, fn *ssa.Function, a []Value) Value {
		e.mapSet(e.syncMapOf(a[0].(Ptr)), a[1], a[2])
		return nil
	}
	stubs["(*sync.Map).LoadOrStore"] = func(e *Exec, fr *Frame, fn *ssa.Function, a []Value) Value {
		m := e.syncMapOf(a[0].(Ptr))
		if v, ok := e.mapGet(m, a[1]); ok {
			return TupleV{v, e.tf.Bool(true)}
		}
		e.mapSet(m, a[1], a[2])
		return TupleV{a[2], e.tf.Bool(false)}
	}
}
