#!/usr/bin/env python3
# Regenerates MANIFEST.json from harness/registry.json (claimed checks) and the fixed property list.
import json
props=[json.loads(l) for l in open('/verif/properties.jsonl')]
reg=json.load(open('/verif/harness/registry.json'))
NA=json.load(open('/verif/not_applicable.json'))
design={"C01":"§3 C01","C02":"§3 C02","C03":"§3 C03","C04":"§3 C04","C05":"§3 C05","C06":"§3 C06","C07":"§3 C07","C08":"§3 C08","C09":"§3 C09","C10":"§3 C10","C11":"§3 C11","C12":"§3 C12","C13":"§3 C13","C14":"§3 C14","C15":"§3 C15","C16":"§3 C16","C17":"§3 C17","C18":"§3 C18","C19":"§3 C19","C20":"§3 C20"}
checks=[]
for p in props:
    pid=p["id"]
    if pid not in reg or pid in NA: continue
    r=reg[pid]
    checks.append({
      "property_id":pid,
      "quick_cmd":f"/verif/bin/ssasym check {pid} --tier quick",
      "thorough_cmd":f"/verif/bin/ssasym check {pid} --tier thorough",
      "evidence_file":f"/verif/evidence/{pid}.json",
      "replay_cmd_template":"/verif/bin/ssasym replay {path}",
      "engine":"ssasym",
      "level_claimed":{"category":"model_checking",
        "text":"Bounded symbolic model checking of the real code: the harness and the repository functions it calls are executed symbolically from their go/ssa form (regenerated from /repo's working tree on every run); on every feasible path z3 decides (path condition AND NOT assertion); unsat = the assertion holds for every input within the stated bounds, sat = a concrete input that is replayed against the native build and reported only if it reproduces. Bounds: "+r.get("bounds",""),
        "design_ref":design[pid]},
      "level_note":"Trusted base: the SSA->SMT executor (engine/), z3 4.8.12, the library summaries listed in the evidence under stubs_used (zip/csv/protobuf/time/regexp/strconv/sort contracts), and the harness oracle written from the property statement. Assumptions: "+"; ".join(r.get("assumptions",[]))+". Outside the claim: "+"; ".join(r.get("outside_claim",[])),
      "technique":"symbolic execution of go/ssa + SMT (z3) with native replay of counterexamples"
    })
m={"version":1,
 "setup_cmd":"cd /verif/engine && GOFLAGS=-mod=mod GOPROXY=off GOSUMDB=off GOTOOLCHAIN=local go build -o /verif/bin/ssasym .",
 "hooks":{"guard":"verif","enable":"no hook lives in /repo: harness files (//go:build verif) are injected as go/packages overlays (engine) and `go build -tags verif -overlay` (native replay) from /verif/harness","baseline_off_cmd":"cd /repo && GOFLAGS=-mod=mod GOPROXY=off go test -vet=off -count=1 ./...","source_commits":[],"add_only":True},
 "engines":[{"name":"ssasym","path":"/verif/engine","serves_properties":[c["property_id"] for c in checks],"kind_free_text":"Go SSA symbolic executor (golang.org/x/tools/go/ssa v0.29.0) emitting SMT-LIB2 to a persistent z3 -in session; decision-vector path exploration, merge-calls, native replay via go build -overlay"}],
 "checks":checks,
 "not_applicable":[{"property_id":k,"reason":v} for k,v in NA.items()],
 "notes":"See DESIGN.md. Fixed genuine defects are recorded in known_findings.json (status fixed); none is suppressed."}
json.dump(m,open('/verif/MANIFEST.json','w'),indent=1)
print(len(checks),"checks;",len(NA),"not applicable")
