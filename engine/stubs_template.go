package main

// text/template: the repository's real template text (from its executed init)
// is parsed by text/template/parse and interpreted symbolically (C20).

import (
	"golang.org/x/tools/go/ssa"
)

type tmplObj struct {
	name  string
	text  StrV
	funcs *MapObj
}

func init() {
	stubs["text/template.New"] = func(e *Exec, fr *Frame, fn *ssa.Function, a []Value) Value {
		n, _ := a[0].(StrV).Const()
		o := e.newObj(StructV{}, nil)
		o.Aux = &tmplObj{name: n}
		o.Name = "template:" + n
		return Ptr{Obj: o}
	}
	stubs["(*text/template.Template).Funcs"] = func(e *Exec, fr *Frame, fn *ssa.Function, a []Value) Value {
		p := a[0].(Ptr)
		p.Obj.Aux.(*tmplObj).funcs = a[1].(MapV).M
		return p
	}
	stubs["(*text/template.Template).Parse"] = func(e *Exec, fr *Frame, fn *ssa.Function, a []Value) Value {
		p := a[0].(Ptr)
		p.Obj.Aux.(*tmplObj).text = a[1].(StrV)
		return TupleV{p, IfaceV{}}
	}
	stubs["text/template.Must"] = func(e *Exec, fr *Frame, fn *ssa.Function, a []Value) Value {
		if err := a[1].(IfaceV); err.T != nil {
			e.fail("panic", "panic:explicit", e.siteOf(fr), "template.Must", "")
		}
		return a[0]
	}
}
