package main

// Terms: hash-consed DAG of SMT expressions over Bool / Int / String (and
// byte sequences for the hash check), with constant folding and integer
// intervals. Go machine integers are mathematical Ints with explicit wrap.

import (
	"fmt"
	"math/big"
	"sort"
	"strings"
)

type Sort uint8

const (
	SBool Sort = iota
	SInt
	SStr
	SBytes // (Seq (_ BitVec 8))
)

func (s Sort) smt() string {
	switch s {
	case SBool:
		return "Bool"
	case SInt:
		return "Int"
	case SStr:
		return "String"
	default:
		return "(Seq (_ BitVec 8))"
	}
}

type Term struct {
	Op     string
	Sort   Sort
	Args   []*Term
	I      *big.Int // const int
	S      string   // const string / var name / uf name
	B      bool
	Lo, Hi *big.Int // interval for Int sort; nil = unbounded
	id     int
}

type TF struct {
	tab   map[string]*Term
	n     int
	Decls []*Term           // variables in declaration order
	UFs   map[string]string // uf name -> declaration
	ufOrd []string
}

func NewTF() *TF {
	return &TF{tab: map[string]*Term{}, UFs: map[string]string{}}
}

func (f *TF) mk(t *Term) *Term {
	var sb strings.Builder
	sb.WriteString(t.Op)
	sb.WriteByte('|')
	sb.WriteByte(byte('0' + t.Sort))
	for _, a := range t.Args {
		fmt.Fprintf(&sb, ",%d", a.id)
	}
	if t.I != nil {
		sb.WriteString("#" + t.I.String())
	}
	if t.Op == "sconst" || t.Op == "var" || t.Op == "uf" || t.Op == "bconst" {
		sb.WriteString("$" + t.S)
	}
	if t.Op == "bool" {
		if t.B {
			sb.WriteString("T")
		} else {
			sb.WriteString("F")
		}
	}
	k := sb.String()
	if e, ok := f.tab[k]; ok {
		return e
	}
	f.n++
	t.id = f.n
	f.tab[k] = t
	return t
}

func bi(i int64) *big.Int { return big.NewInt(i) }

func (f *TF) Int(i int64) *Term { return f.IntB(bi(i)) }
func (f *TF) IntB(i *big.Int) *Term {
	return f.mk(&Term{Op: "int", Sort: SInt, I: i, Lo: i, Hi: i})
}
func (f *TF) Bool(b bool) *Term  { return f.mk(&Term{Op: "bool", Sort: SBool, B: b}) }
func (f *TF) Str(s string) *Term { return f.mk(&Term{Op: "sconst", Sort: SStr, S: s}) }
func (f *TF) BytesConst(s string) *Term {
	return f.mk(&Term{Op: "bconst", Sort: SBytes, S: s})
}

func (f *TF) Var(name string, s Sort, lo, hi *big.Int) *Term {
	k := &Term{Op: "var", Sort: s, S: name, Lo: lo, Hi: hi}
	n := f.n
	t := f.mk(k)
	if f.n != n {
		f.Decls = append(f.Decls, t)
	}
	return t
}

func (t *Term) IsConst() bool {
	return t.Op == "int" || t.Op == "bool" || t.Op == "sconst" || t.Op == "bconst"
}
func (t *Term) IsTrue() bool  { return t.Op == "bool" && t.B }
func (t *Term) IsFalse() bool { return t.Op == "bool" && !t.B }

func (f *TF) UF(name string, ret Sort, args ...*Term) *Term {
	if _, ok := f.UFs[name]; !ok {
		var as []string
		for _, a := range args {
			as = append(as, a.Sort.smt())
		}
		f.UFs[name] = fmt.Sprintf("(declare-fun %s (%s) %s)", name, strings.Join(as, " "), ret.smt())
		f.ufOrd = append(f.ufOrd, name)
	}
	return f.mk(&Term{Op: "uf", Sort: ret, S: name, Args: args})
}

// ---- intervals

func minB(a, b *big.Int) *big.Int {
	if a == nil || b == nil {
		return nil
	}
	if a.Cmp(b) < 0 {
		return a
	}
	return b
}
func maxB(a, b *big.Int) *big.Int {
	if a == nil || b == nil {
		return nil
	}
	if a.Cmp(b) > 0 {
		return a
	}
	return b
}
func addB(a, b *big.Int) *big.Int {
	if a == nil || b == nil {
		return nil
	}
	return new(big.Int).Add(a, b)
}
func negB(a *big.Int) *big.Int {
	if a == nil {
		return nil
	}
	return new(big.Int).Neg(a)
}

// ---- linear forms: a = Σ coef·atom + c

type linForm struct {
	atoms []*Term
	coefs []*big.Int
	c     *big.Int
}

func (l *linForm) add(t *Term, k *big.Int) {
	for i, a := range l.atoms {
		if a == t {
			l.coefs[i] = new(big.Int).Add(l.coefs[i], k)
			return
		}
	}
	l.atoms = append(l.atoms, t)
	l.coefs = append(l.coefs, new(big.Int).Set(k))
}

func linCollect(t *Term, k *big.Int, l *linForm, depth int) {
	if depth > 64 {
		l.add(t, k)
		return
	}
	switch t.Op {
	case "int":
		l.c = new(big.Int).Add(l.c, new(big.Int).Mul(k, t.I))
	case "+":
		linCollect(t.Args[0], k, l, depth+1)
		linCollect(t.Args[1], k, l, depth+1)
	case "-":
		linCollect(t.Args[0], k, l, depth+1)
		linCollect(t.Args[1], new(big.Int).Neg(k), l, depth+1)
	case "neg":
		linCollect(t.Args[0], new(big.Int).Neg(k), l, depth+1)
	case "*":
		if t.Args[1].Op == "int" {
			linCollect(t.Args[0], new(big.Int).Mul(k, t.Args[1].I), l, depth+1)
		} else if t.Args[0].Op == "int" {
			linCollect(t.Args[1], new(big.Int).Mul(k, t.Args[0].I), l, depth+1)
		} else {
			l.add(t, k)
		}
	default:
		l.add(t, k)
	}
}

// splitByDivisor writes a non-negative a as k·q + r with 0 <= r < k shown by
// intervals (q, r linear in a's atoms); ok=false when that cannot be shown.
func (f *TF) splitByDivisor(a *Term, k *big.Int) (q, r *Term, ok bool) {
	return f.splitByDivisorS(a, k, true)
}

// splitByDivisorS with nonNeg=false is valid for Euclidean div/mod of any sign (floor quotient).
func (f *TF) splitByDivisorS(a *Term, k *big.Int, nonNeg bool) (q, r *Term, ok bool) {
	if a.Op != "+" && a.Op != "-" && a.Op != "*" {
		return nil, nil, false
	}
	if nonNeg && (a.Lo == nil || a.Lo.Sign() < 0) {
		return nil, nil, false
	}
	l := &linForm{c: new(big.Int)}
	linCollect(a, bi(1), l, 0)
	if len(l.atoms) > 48 {
		return nil, nil, false
	}
	q, r = f.Int(0), f.Int(0)
	for i, at := range l.atoms {
		co := l.coefs[i]
		if co.Sign() == 0 {
			continue
		}
		if new(big.Int).Mod(co, k).Sign() == 0 {
			q = f.Add(q, f.Mul(at, f.IntB(new(big.Int).Quo(co, k))))
		} else {
			r = f.Add(r, f.Mul(at, f.IntB(co)))
		}
	}
	if r.Lo == nil || r.Hi == nil {
		return nil, nil, false
	}
	// the constant goes to r as the representative of its class mod k that lifts r's interval into [0,k)
	_, rc := new(big.Int).DivMod(l.c, k, new(big.Int))
	need := new(big.Int).Neg(new(big.Int).Add(r.Lo, rc)) // smallest multiple of k to add: ceil(need/k)
	j := new(big.Int)
	if need.Sign() > 0 {
		j.Add(need, new(big.Int).Sub(k, bi(1)))
		j.Quo(j, k)
	} else {
		j.Quo(need, k) // need <= 0: truncation toward zero is the ceiling
	}
	cr := new(big.Int).Add(rc, new(big.Int).Mul(j, k))
	r = f.Add(r, f.IntB(cr))
	q = f.Add(q, f.IntB(new(big.Int).Quo(new(big.Int).Sub(l.c, cr), k)))
	if r.Lo == nil || r.Hi == nil || r.Lo.Sign() < 0 || r.Hi.Cmp(k) >= 0 {
		return nil, nil, false
	}
	return q, r, true
}

// ---- arithmetic

func (f *TF) Add(a, b *Term) *Term {
	if a.Op == "int" && b.Op == "int" {
		return f.IntB(new(big.Int).Add(a.I, b.I))
	}
	if a.Op == "int" && a.I.Sign() == 0 {
		return b
	}
	if b.Op == "int" && b.I.Sign() == 0 {
		return a
	}
	if a.Op == "-" && a.Args[1] == b {
		return a.Args[0]
	}
	if b.Op == "-" && b.Args[1] == a {
		return b.Args[0]
	}
	return f.mk(&Term{Op: "+", Sort: SInt, Args: []*Term{a, b}, Lo: addB(a.Lo, b.Lo), Hi: addB(a.Hi, b.Hi)})
}

func (f *TF) Neg(a *Term) *Term {
	if a.Op == "int" {
		return f.IntB(new(big.Int).Neg(a.I))
	}
	return f.mk(&Term{Op: "neg", Sort: SInt, Args: []*Term{a}, Lo: negB(a.Hi), Hi: negB(a.Lo)})
}

func (f *TF) Sub(a, b *Term) *Term {
	if a.Op == "int" && b.Op == "int" {
		return f.IntB(new(big.Int).Sub(a.I, b.I))
	}
	if b.Op == "int" && b.I.Sign() == 0 {
		return a
	}
	if a == b {
		return f.Int(0)
	}
	if a.Op == "+" && a.Args[1] == b {
		return a.Args[0]
	}
	if a.Op == "+" && a.Args[0] == b {
		return a.Args[1]
	}
	return f.mk(&Term{Op: "-", Sort: SInt, Args: []*Term{a, b}, Lo: addB(a.Lo, negB(b.Hi)), Hi: addB(a.Hi, negB(b.Lo))})
}

func (f *TF) Mul(a, b *Term) *Term {
	if a.Op == "int" && b.Op == "int" {
		return f.IntB(new(big.Int).Mul(a.I, b.I))
	}
	if a.Op == "int" {
		a, b = b, a
	}
	var lo, hi *big.Int
	if b.Op == "int" {
		if b.I.Sign() == 0 {
			return f.Int(0)
		}
		if b.I.Cmp(bi(1)) == 0 {
			return a
		}
		if a.Lo != nil && a.Hi != nil {
			x := new(big.Int).Mul(a.Lo, b.I)
			y := new(big.Int).Mul(a.Hi, b.I)
			lo, hi = minB(x, y), maxB(x, y)
		}
	} else if a.Lo != nil && a.Hi != nil && b.Lo != nil && b.Hi != nil {
		c := []*big.Int{new(big.Int).Mul(a.Lo, b.Lo), new(big.Int).Mul(a.Lo, b.Hi), new(big.Int).Mul(a.Hi, b.Lo), new(big.Int).Mul(a.Hi, b.Hi)}
		lo, hi = c[0], c[0]
		for _, x := range c[1:] {
			lo, hi = minB(lo, x), maxB(hi, x)
		}
	}
	return f.mk(&Term{Op: "*", Sort: SInt, Args: []*Term{a, b}, Lo: lo, Hi: hi})
}

// DivT is Go's truncated division (caller guarantees b != 0).
func (f *TF) DivT(a, b *Term) *Term {
	if a.Op == "int" && b.Op == "int" && b.I.Sign() != 0 {
		return f.IntB(new(big.Int).Quo(a.I, b.I))
	}
	var lo, hi *big.Int
	if b.Op == "int" && b.I.Sign() > 0 {
		if q, _, ok := f.splitByDivisor(a, b.I); ok {
			return q
		}
	}
	if b.Op == "int" && b.I.Sign() > 0 && a.Lo != nil && a.Hi != nil {
		lo = new(big.Int).Quo(a.Lo, b.I)
		hi = new(big.Int).Quo(a.Hi, b.I)
	}
	return f.mk(&Term{Op: "divt", Sort: SInt, Args: []*Term{a, b}, Lo: lo, Hi: hi})
}

// RemT is Go's truncated remainder.
func (f *TF) RemT(a, b *Term) *Term {
	if a.Op == "int" && b.Op == "int" && b.I.Sign() != 0 {
		return f.IntB(new(big.Int).Rem(a.I, b.I))
	}
	var lo, hi *big.Int
	if b.Op == "int" && b.I.Sign() > 0 {
		if _, r, ok := f.splitByDivisor(a, b.I); ok {
			return r
		}
	}
	if b.Op == "int" && b.I.Sign() > 0 {
		m := new(big.Int).Sub(b.I, bi(1))
		if a.Lo != nil && a.Lo.Sign() >= 0 {
			lo, hi = bi(0), m
			if a.Hi != nil && a.Hi.Cmp(m) < 0 {
				return a
			}
		} else {
			lo, hi = negB(m), m
		}
	}
	return f.mk(&Term{Op: "remt", Sort: SInt, Args: []*Term{a, b}, Lo: lo, Hi: hi})
}

// EDiv / EMod: SMT-LIB (Euclidean) div and mod by a positive constant.
func (f *TF) EDiv(a *Term, c int64) *Term {
	if c == 1 {
		return a
	}
	if a.Op == "int" {
		q, _ := new(big.Int).DivMod(a.I, bi(c), new(big.Int))
		return f.IntB(q)
	}
	if q, _, ok := f.splitByDivisor(a, bi(c)); ok {
		return q
	}
	return f.mk(&Term{Op: "ediv", Sort: SInt, Args: []*Term{a, f.Int(c)}})
}
func (f *TF) EMod(a *Term, c int64) *Term {
	if a.Op == "int" {
		_, m := new(big.Int).DivMod(a.I, bi(c), new(big.Int))
		return f.IntB(m)
	}
	if a.Lo != nil && a.Hi != nil && a.Lo.Sign() >= 0 && a.Hi.Cmp(bi(c)) < 0 {
		return a
	}
	if _, r, ok := f.splitByDivisor(a, bi(c)); ok {
		return r
	}
	return f.mk(&Term{Op: "emod", Sort: SInt, Args: []*Term{a, f.Int(c)}, Lo: bi(0), Hi: bi(c - 1)})
}

func typeRange(bits int, signed bool) (*big.Int, *big.Int) {
	if signed {
		h := new(big.Int).Lsh(bi(1), uint(bits-1))
		return new(big.Int).Neg(h), new(big.Int).Sub(h, bi(1))
	}
	h := new(big.Int).Lsh(bi(1), uint(bits))
	return bi(0), new(big.Int).Sub(h, bi(1))
}

// Wrap reduces x into the range of a bits-wide (un)signed machine integer.
func (f *TF) Wrap(x *Term, bits int, signed bool) *Term {
	lo, hi := typeRange(bits, signed)
	if x.Lo != nil && x.Hi != nil && x.Lo.Cmp(lo) >= 0 && x.Hi.Cmp(hi) <= 0 {
		return x
	}
	if x.Op == "int" {
		m := new(big.Int).Lsh(bi(1), uint(bits))
		r := new(big.Int).Mod(x.I, m) // Euclidean: 0 <= r < m
		if signed && r.Cmp(hi) > 0 {
			r.Sub(r, m)
		}
		return f.IntB(r)
	}
	if !signed {
		// x mod 2^bits of a linear form whose low part is visible: k*q + r with 0 <= r < 2^bits
		if _, r, ok := f.splitByDivisorS(x, new(big.Int).Lsh(bi(1), uint(bits)), false); ok {
			return r
		}
	}
	op := "wrapu"
	if signed {
		op = "wraps"
	}
	return f.mk(&Term{Op: op, Sort: SInt, Args: []*Term{x}, I: bi(int64(bits)), Lo: lo, Hi: hi})
}

// ---- boolean

func (f *TF) Not(a *Term) *Term {
	if a.Op == "bool" {
		return f.Bool(!a.B)
	}
	if a.Op == "not" {
		return a.Args[0]
	}
	return f.mk(&Term{Op: "not", Sort: SBool, Args: []*Term{a}})
}

func (f *TF) And(xs ...*Term) *Term {
	var out []*Term
	seen := map[int]bool{}
	for _, x := range xs {
		if x.IsFalse() {
			return x
		}
		if x.IsTrue() || seen[x.id] {
			continue
		}
		if x.Op == "and" {
			for _, y := range x.Args {
				if !seen[y.id] {
					seen[y.id] = true
					out = append(out, y)
				}
			}
			continue
		}
		seen[x.id] = true
		out = append(out, x)
	}
	for _, x := range out {
		if x.Op == "not" && seen[x.Args[0].id] {
			return f.Bool(false)
		}
	}
	if len(out) == 0 {
		return f.Bool(true)
	}
	if len(out) == 1 {
		return out[0]
	}
	return f.mk(&Term{Op: "and", Sort: SBool, Args: out})
}

func (f *TF) Or(xs ...*Term) *Term {
	var out []*Term
	seen := map[int]bool{}
	for _, x := range xs {
		if x.IsTrue() {
			return x
		}
		if x.IsFalse() || seen[x.id] {
			continue
		}
		if x.Op == "or" {
			for _, y := range x.Args {
				if !seen[y.id] {
					seen[y.id] = true
					out = append(out, y)
				}
			}
			continue
		}
		seen[x.id] = true
		out = append(out, x)
	}
	for _, x := range out {
		if x.Op == "not" && seen[x.Args[0].id] {
			return f.Bool(true)
		}
	}
	if len(out) == 0 {
		return f.Bool(false)
	}
	if len(out) == 1 {
		return out[0]
	}
	return f.mk(&Term{Op: "or", Sort: SBool, Args: out})
}

func (f *TF) Implies(a, b *Term) *Term { return f.Or(f.Not(a), b) }

func (f *TF) Ite(c, a, b *Term) *Term {
	if c.IsTrue() {
		return a
	}
	if c.IsFalse() {
		return b
	}
	if a == b {
		return a
	}
	if a.Sort == SBool {
		if a.IsTrue() && b.IsFalse() {
			return c
		}
		if a.IsFalse() && b.IsTrue() {
			return f.Not(c)
		}
		return f.And(f.Or(f.Not(c), a), f.Or(c, b))
	}
	t := &Term{Op: "ite", Sort: a.Sort, Args: []*Term{c, a, b}}
	if a.Sort == SInt {
		t.Lo, t.Hi = minB(a.Lo, b.Lo), maxB(a.Hi, b.Hi)
	}
	return f.mk(t)
}

func (f *TF) Eq(a, b *Term) *Term {
	if a == b {
		return f.Bool(true)
	}
	if a.Sort != b.Sort {
		panic(fmt.Sprintf("Eq sort mismatch %v %v", a, b))
	}
	if a.IsConst() && b.IsConst() {
		switch a.Sort {
		case SInt:
			return f.Bool(a.I.Cmp(b.I) == 0)
		case SBool:
			return f.Bool(a.B == b.B)
		default:
			return f.Bool(a.S == b.S)
		}
	}
	if a.Sort == SBool {
		if a.Op == "bool" {
			a, b = b, a
		}
		if b.IsTrue() {
			return a
		}
		if b.IsFalse() {
			return f.Not(a)
		}
	}
	if a.Sort == SInt {
		if a.Hi != nil && b.Lo != nil && a.Hi.Cmp(b.Lo) < 0 {
			return f.Bool(false)
		}
		if b.Hi != nil && a.Lo != nil && b.Hi.Cmp(a.Lo) < 0 {
			return f.Bool(false)
		}
		// ite(c,k1,k2) == k  with constants
		if b.Op == "ite" {
			a, b = b, a
		}
		if a.Op == "ite" && b.Op == "int" && a.Args[1].Op == "int" && a.Args[2].Op == "int" {
			return f.Ite(a.Args[0], f.Eq(a.Args[1], b), f.Eq(a.Args[2], b))
		}
	}
	if a.Sort == SStr {
		// different constant lengths
		la, oka := strConstLen(a)
		lb, okb := strConstLen(b)
		if oka && okb && la != lb {
			return f.Bool(false)
		}
		// push equality with a constant through ite
		if b.Op == "ite" && a.Op == "sconst" {
			a, b = b, a
		}
		if a.Op == "ite" && b.Op == "sconst" {
			return f.Ite(a.Args[0], f.Eq(a.Args[1], b), f.Eq(a.Args[2], b))
		}
		// decimal rendering of a non-negative int against a constant
		if b.Op == "fromint" && a.Op == "sconst" {
			a, b = b, a
		}
		if a.Op == "fromint" && b.Op == "sconst" {
			if b.S == "" {
				return f.Lt(a.Args[0], f.Int(0))
			}
			k, ok := new(big.Int).SetString(b.S, 10)
			if !ok || k.Sign() < 0 || k.String() != b.S {
				return f.Bool(false)
			}
			return f.Eq(a.Args[0], f.IntB(k))
		}
		if ha, ra, hb, rb, kind := sameWidthHeads(f, a, b); kind != "" && (a.Op == "concat" || b.Op == "concat") {
			switch kind {
			case "same":
				return f.Eq(ra, rb)
			case "dec":
				return f.And(f.Eq(ha.Args[0], hb.Args[0]), f.Eq(ra, rb))
			case "const":
				n := len(ha.S)
				if len(hb.S) < n {
					n = len(hb.S)
				}
				if ha.S[:n] != hb.S[:n] {
					return f.Bool(false)
				}
				return f.Eq(f.Concat(f.Str(ha.S[n:]), ra), f.Concat(f.Str(hb.S[n:]), rb))
			}
		}
	}
	if a.id > b.id {
		a, b = b, a
	}
	return f.mk(&Term{Op: "=", Sort: SBool, Args: []*Term{a, b}})
}

func (f *TF) Lt(a, b *Term) *Term {
	if a.Op == "int" && b.Op == "int" {
		return f.Bool(a.I.Cmp(b.I) < 0)
	}
	if a == b {
		return f.Bool(false)
	}
	if a.Hi != nil && b.Lo != nil && a.Hi.Cmp(b.Lo) < 0 {
		return f.Bool(true)
	}
	if a.Lo != nil && b.Hi != nil && a.Lo.Cmp(b.Hi) >= 0 {
		return f.Bool(false)
	}
	return f.mk(&Term{Op: "<", Sort: SBool, Args: []*Term{a, b}})
}

func (f *TF) Le(a, b *Term) *Term {
	if a.Op == "int" && b.Op == "int" {
		return f.Bool(a.I.Cmp(b.I) <= 0)
	}
	if a == b {
		return f.Bool(true)
	}
	if a.Hi != nil && b.Lo != nil && a.Hi.Cmp(b.Lo) <= 0 {
		return f.Bool(true)
	}
	if a.Lo != nil && b.Hi != nil && a.Lo.Cmp(b.Hi) > 0 {
		return f.Bool(false)
	}
	return f.mk(&Term{Op: "<=", Sort: SBool, Args: []*Term{a, b}})
}

// ---- strings (SMT String sort)

func strConstLen(t *Term) (int, bool) {
	switch t.Op {
	case "sconst":
		return len(t.S), true
	case "fromcode":
		return 1, true
	case "concat":
		n := 0
		for _, a := range t.Args {
			l, ok := strConstLen(a)
			if !ok {
				return 0, false
			}
			n += l
		}
		return n, true
	}
	return 0, false
}

func (f *TF) StrLen(s *Term) *Term {
	if n, ok := strConstLen(s); ok {
		return f.Int(int64(n))
	}
	if s.Op == "concat" {
		r := f.Int(0)
		for _, a := range s.Args {
			r = f.Add(r, f.StrLen(a))
		}
		return r
	}
	return f.mk(&Term{Op: "str.len", Sort: SInt, Args: []*Term{s}, Lo: bi(0)})
}

func (f *TF) Concat(xs ...*Term) *Term {
	var out []*Term
	for _, x := range xs {
		if x.Op == "concat" {
			for _, y := range x.Args {
				out = appendStr(f, out, y)
			}
		} else {
			out = appendStr(f, out, x)
		}
	}
	if len(out) == 0 {
		return f.Str("")
	}
	if len(out) == 1 {
		return out[0]
	}
	return f.mk(&Term{Op: "concat", Sort: SStr, Args: out})
}

func appendStr(f *TF, out []*Term, y *Term) []*Term {
	if y.Op == "sconst" && y.S == "" {
		return out
	}
	if y.Op == "sconst" && len(out) > 0 && out[len(out)-1].Op == "sconst" {
		out[len(out)-1] = f.Str(out[len(out)-1].S + y.S)
		return out
	}
	return append(out, y)
}

func (f *TF) FromCode(c *Term) *Term {
	if c.Op == "int" && c.I.IsInt64() && c.I.Int64() >= 0 && c.I.Int64() < 128 {
		return f.Str(string(rune(c.I.Int64())))
	}
	return f.mk(&Term{Op: "fromcode", Sort: SStr, Args: []*Term{c}})
}

// CodeAt is the code of the character at index i (caller guarantees in range).
func (f *TF) CodeAt(s, i *Term) *Term {
	if s.Op == "sconst" && i.Op == "int" {
		k := int(i.I.Int64())
		if k >= 0 && k < len(s.S) {
			return f.Int(int64(s.S[k]))
		}
	}
	return f.mk(&Term{Op: "codeat", Sort: SInt, Args: []*Term{s, i}, Lo: bi(0), Hi: bi(127)})
}

func (f *TF) Substr(s, off, n *Term) *Term {
	if s.Op == "sconst" && off.Op == "int" && n.Op == "int" {
		o, l := int(off.I.Int64()), int(n.I.Int64())
		if o >= 0 && l >= 0 && o+l <= len(s.S) {
			return f.Str(s.S[o : o+l])
		}
	}
	if off.Op == "int" && off.I.Sign() == 0 && n == f.StrLen(s) {
		return s
	}
	return f.mk(&Term{Op: "substr", Sort: SStr, Args: []*Term{s, off, n}})
}

func (f *TF) FromInt(x *Term) *Term { // decimal of a non-negative int
	if x.Op == "int" && x.I.Sign() >= 0 {
		return f.Str(x.I.String())
	}
	return f.mk(&Term{Op: "fromint", Sort: SStr, Args: []*Term{x}})
}

// DecInt is the decimal rendering of any int (with '-' for negatives).
func (f *TF) DecInt(x *Term) *Term {
	if x.Op == "int" {
		return f.Str(x.I.String())
	}
	if x.Lo != nil && x.Lo.Sign() >= 0 {
		return f.FromInt(x)
	}
	return f.Ite(f.Le(f.Int(0), x), f.FromInt(x), f.Concat(f.Str("-"), f.FromInt(f.Neg(x))))
}

func (f *TF) ToInt(s *Term) *Term { // -1 if not all digits / empty
	return f.mk(&Term{Op: "toint", Sort: SInt, Args: []*Term{s}, Lo: bi(-1)})
}

// decWidth: number of decimal digits of a non-negative int term, if fixed by its interval.
func decWidth(t *Term) (int, bool) {
	if t.Lo == nil || t.Hi == nil || t.Lo.Sign() < 0 {
		return 0, false
	}
	wl, wh := len(t.Lo.String()), len(t.Hi.String())
	return wl, wl == wh
}

func splitHead(f *TF, t *Term) (*Term, *Term) {
	if t.Op == "concat" {
		return t.Args[0], f.Concat(t.Args[1:]...)
	}
	return t, f.Str("")
}

// sameWidthHeads: both strings begin with a fixed-width segment of equal
// width (decimal numbers of equal digit count, or the same term).
func sameWidthHeads(f *TF, a, b *Term) (ha, ra, hb, rb *Term, kind string) {
	ha, ra = splitHead(f, a)
	hb, rb = splitHead(f, b)
	if ha == hb {
		return ha, ra, hb, rb, "same"
	}
	if ha.Op == "fromint" && hb.Op == "fromint" {
		wa, oka := decWidth(ha.Args[0])
		wb, okb := decWidth(hb.Args[0])
		if oka && okb && wa == wb {
			return ha, ra, hb, rb, "dec"
		}
	}
	if ha.Op == "sconst" && hb.Op == "sconst" && len(ha.S) > 0 && len(hb.S) > 0 {
		return ha, ra, hb, rb, "const"
	}
	return nil, nil, nil, nil, ""
}

func (f *TF) StrLt(a, b *Term) *Term {
	if a.Op == "sconst" && b.Op == "sconst" {
		return f.Bool(a.S < b.S)
	}
	if a == b {
		return f.Bool(false)
	}
	if ha, ra, hb, rb, kind := sameWidthHeads(f, a, b); kind != "" {
		switch kind {
		case "same":
			if n, ok := strConstLen(ha); ok && n >= 0 || ha.Op == "fromint" {
				return f.StrLt(ra, rb)
			}
		case "dec":
			x, y := ha.Args[0], hb.Args[0]
			return f.Or(f.Lt(x, y), f.And(f.Eq(x, y), f.StrLt(ra, rb)))
		case "const":
			n := len(ha.S)
			if len(hb.S) < n {
				n = len(hb.S)
			}
			if ha.S[:n] != hb.S[:n] {
				return f.Bool(ha.S[:n] < hb.S[:n])
			}
			if len(ha.S) == len(hb.S) {
				return f.StrLt(ra, rb)
			}
		}
	}
	return f.mk(&Term{Op: "str.<", Sort: SBool, Args: []*Term{a, b}})
}

func (f *TF) PrefixOf(p, s *Term) *Term {
	if p.Op == "sconst" && s.Op == "sconst" {
		return f.Bool(strings.HasPrefix(s.S, p.S))
	}
	return f.mk(&Term{Op: "prefixof", Sort: SBool, Args: []*Term{p, s}})
}
func (f *TF) SuffixOf(p, s *Term) *Term {
	if p.Op == "sconst" && s.Op == "sconst" {
		return f.Bool(strings.HasSuffix(s.S, p.S))
	}
	return f.mk(&Term{Op: "suffixof", Sort: SBool, Args: []*Term{p, s}})
}
func (f *TF) Contains(s, sub *Term) *Term {
	if sub.Op == "sconst" && s.Op == "sconst" {
		return f.Bool(strings.Contains(s.S, sub.S))
	}
	return f.mk(&Term{Op: "contains", Sort: SBool, Args: []*Term{s, sub}})
}

// InRe: membership in a regular expression given as SMT-LIB text.
func (f *TF) InRe(s *Term, re string) *Term {
	return f.mk(&Term{Op: "inre", Sort: SBool, Args: []*Term{s}, S: re, I: bi(int64(hashStr(re)))})
}

func hashStr(s string) uint32 {
	var h uint32 = 2166136261
	for i := 0; i < len(s); i++ {
		h = (h ^ uint32(s[i])) * 16777619
	}
	return h
}

// ---- byte sequences (hash streams)

func (f *TF) BytesConcat(xs ...*Term) *Term {
	var out []*Term
	for _, x := range xs {
		if x.Op == "bconcat" {
			out = append(out, x.Args...)
		} else if x.Op == "bconst" && x.S == "" {
		} else {
			out = append(out, x)
		}
	}
	if len(out) == 0 {
		return f.BytesConst("")
	}
	if len(out) == 1 {
		return out[0]
	}
	return f.mk(&Term{Op: "bconcat", Sort: SBytes, Args: out})
}

func (f *TF) BytesLen(s *Term) *Term {
	if s.Op == "bconst" {
		return f.Int(int64(len(s.S)))
	}
	if s.Op == "bconcat" {
		r := f.Int(0)
		for _, a := range s.Args {
			r = f.Add(r, f.BytesLen(a))
		}
		return r
	}
	return f.mk(&Term{Op: "seq.len", Sort: SInt, Args: []*Term{s}, Lo: bi(0)})
}

// ---- printing

func smtInt(i *big.Int) string {
	if i.Sign() < 0 {
		return "(- " + new(big.Int).Neg(i).String() + ")"
	}
	return i.String()
}

func smtStr(s string) string {
	var sb strings.Builder
	sb.WriteByte('"')
	for i := 0; i < len(s); i++ {
		c := s[i]
		switch {
		case c == '"':
			sb.WriteString(`""`)
		case c == '\\' || c < 32 || c > 126:
			fmt.Fprintf(&sb, "\\u{%x}", c)
		default:
			sb.WriteByte(c)
		}
	}
	sb.WriteByte('"')
	return sb.String()
}

func smtName(s string) string { return "|" + strings.NewReplacer("|", "_", "\\", "_").Replace(s) + "|" }

type printer struct {
	sb   strings.Builder
	memo map[int]string
	defs []string
	uses map[int]int
}

// SMT renders t; shared non-leaf subterms are bound by nested lets.
func (t *Term) SMT() string {
	p := &printer{memo: map[int]string{}, uses: map[int]int{}}
	p.count(t)
	body := p.pr(t)
	for i := len(p.defs) - 1; i >= 0; i-- {
		body = "(let (" + p.defs[i] + ") " + body + ")"
	}
	return body
}

func (p *printer) count(t *Term) {
	p.uses[t.id]++
	if p.uses[t.id] > 1 {
		return
	}
	for _, a := range t.Args {
		p.count(a)
	}
}

func (p *printer) pr(t *Term) string {
	if s, ok := p.memo[t.id]; ok {
		return s
	}
	s := p.pr1(t)
	if len(t.Args) > 0 && p.uses[t.id] > 1 && len(s) > 24 {
		name := fmt.Sprintf("?s%d", t.id)
		p.defs = append(p.defs, "("+name+" "+s+")")
		s = name
	}
	p.memo[t.id] = s
	return s
}

func (p *printer) args(t *Term) string {
	var xs []string
	for _, a := range t.Args {
		xs = append(xs, p.pr(a))
	}
	return strings.Join(xs, " ")
}

func (p *printer) pr1(t *Term) string {
	switch t.Op {
	case "int":
		return smtInt(t.I)
	case "bool":
		if t.B {
			return "true"
		}
		return "false"
	case "sconst":
		return smtStr(t.S)
	case "bconst":
		if t.S == "" {
			return "(as seq.empty (Seq (_ BitVec 8)))"
		}
		var xs []string
		for i := 0; i < len(t.S); i++ {
			xs = append(xs, fmt.Sprintf("(seq.unit #x%02x)", t.S[i]))
		}
		if len(xs) == 1 {
			return xs[0]
		}
		return "(seq.++ " + strings.Join(xs, " ") + ")"
	case "var":
		return smtName(t.S)
	case "uf":
		if len(t.Args) == 0 {
			return t.S
		}
		return "(" + t.S + " " + p.args(t) + ")"
	case "+", "-", "*", "and", "or", "not", "=", "<", "<=", "ite", "str.len", "str.<", "seq.len":
		return "(" + t.Op + " " + p.args(t) + ")"
	case "neg":
		return "(- " + p.args(t) + ")"
	case "ediv":
		return "(div " + p.args(t) + ")"
	case "emod":
		return "(mod " + p.args(t) + ")"
	case "divt":
		a, b := p.pr(t.Args[0]), p.pr(t.Args[1])
		if t.Args[1].Op == "int" && t.Args[1].I.Sign() > 0 {
			if t.Args[0].Lo != nil && t.Args[0].Lo.Sign() >= 0 {
				return "(div " + a + " " + b + ")"
			}
			return "(ite (>= " + a + " 0) (div " + a + " " + b + ") (- (div (- " + a + ") " + b + ")))"
		}
		// general truncated division
		return "(ite (>= " + a + " 0) (ite (> " + b + " 0) (div " + a + " " + b + ") (- (div " + a + " (- " + b + ")))) (ite (> " + b + " 0) (- (div (- " + a + ") " + b + ")) (div (- " + a + ") (- " + b + "))))"
	case "remt":
		a, b := p.pr(t.Args[0]), p.pr(t.Args[1])
		if t.Args[0].Lo != nil && t.Args[0].Lo.Sign() >= 0 {
			return "(mod " + a + " " + b + ")"
		}
		return "(ite (>= " + a + " 0) (mod " + a + " " + b + ") (- (mod (- " + a + ") " + b + ")))"
	case "wrapu":
		m := new(big.Int).Lsh(bi(1), uint(t.I.Int64()))
		return "(mod " + p.pr(t.Args[0]) + " " + m.String() + ")"
	case "wraps":
		m := new(big.Int).Lsh(bi(1), uint(t.I.Int64()))
		h := new(big.Int).Rsh(m, 1)
		return "(- (mod (+ " + p.pr(t.Args[0]) + " " + h.String() + ") " + m.String() + ") " + h.String() + ")"
	case "concat":
		return "(str.++ " + p.args(t) + ")"
	case "bconcat":
		return "(seq.++ " + p.args(t) + ")"
	case "fromcode":
		return "(str.from_code " + p.args(t) + ")"
	case "codeat":
		return "(str.to_code (str.at " + p.args(t) + "))"
	case "substr":
		return "(str.substr " + p.args(t) + ")"
	case "fromint":
		return "(str.from_int " + p.args(t) + ")"
	case "toint":
		return "(str.to_int " + p.args(t) + ")"
	case "prefixof":
		return "(str.prefixof " + p.args(t) + ")"
	case "suffixof":
		return "(str.suffixof " + p.args(t) + ")"
	case "contains":
		return "(str.contains " + p.args(t) + ")"
	case "inre":
		return "(str.in_re " + p.args(t) + " " + t.S + ")"
	}
	panic("SMT: unknown op " + t.Op)
}

func (t *Term) String() string { return t.SMT() }

// Vars collects the variables occurring in t.
func (t *Term) Vars(into map[string]*Term) {
	seen := map[int]bool{}
	var walk func(*Term)
	walk = func(x *Term) {
		if seen[x.id] {
			return
		}
		seen[x.id] = true
		if x.Op == "var" {
			into[x.S] = x
		}
		for _, a := range x.Args {
			walk(a)
		}
	}
	walk(t)
}

func sortedKeys[V any](m map[string]V) []string {
	var ks []string
	for k := range m {
		ks = append(ks, k)
	}
	sort.Strings(ks)
	return ks
}
