//go:build verif

package journal

import (
	"time"

	"github.com/jamespfennell/gtfs"
	vr "github.com/jamespfennell/gtfs/internal/verifrt"
)

func init() {
	vr.Register("Harness_C14_step", Harness_C14_step)
}

func hOptTime(tag string) *time.Time {
	t := vr.Unix(vr.I64(tag), time.UTC)
	return vr.MaybeNil(tag+".nil", &t)
}

func hOptStr(tag string) *string {
	s := vr.Str(tag)
	return vr.MaybeNil(tag+".nil", &s)
}

func hEvent(tag string) *gtfs.StopTimeEvent {
	ev := gtfs.StopTimeEvent{Time: hOptTime(tag + ".time")}
	return vr.MaybeNil(tag+".nil", &ev)
}

// hPreTrip builds an arbitrary journal trip with k stop times.
func hPreTrip(k int) Trip {
	trip := Trip{
		TripUID: vr.Str("pre.uid"), TripID: vr.Str("pre.tripid"), RouteID: vr.Str("pre.route"),
		IsAssigned:   vr.Bool("pre.assigned"),
		LastObserved: vr.Unix(vr.I64("pre.lastobs"), time.UTC),
		NumUpdates:   vr.Int("pre.nupd", 0, 1000),
	}
	for i := 0; i < k; i++ {
		trip.StopTimes = append(trip.StopTimes, StopTime{
			StopID:        vr.Str(vr.T("pre", i, ".id")),
			ArrivalTime:   hOptTime(vr.T("pre", i, ".arr")),
			DepartureTime: hOptTime(vr.T("pre", i, ".dep")),
			Track:         hOptStr(vr.T("pre", i, ".track")),
			LastObserved:  vr.Unix(vr.I64(vr.T("pre", i, ".lastobs")), time.UTC),
			MarkedPast:    hOptTime(vr.T("pre", i, ".past")),
		})
	}
	return trip
}

func hUpdates(m int) []gtfs.StopTimeUpdate {
	var ups []gtfs.StopTimeUpdate
	for j := 0; j < m; j++ {
		id := vr.Str(vr.T("up", j, ".id"))
		ups = append(ups, gtfs.StopTimeUpdate{
			StopID:    &id,
			Arrival:   hEvent(vr.T("up", j, ".arr")),
			Departure: hEvent(vr.T("up", j, ".dep")),
			NyctTrack: hOptStr(vr.T("up", j, ".track")),
			// the journal does not look at the schedule relationship: a skipped stop is still a reported stop
			ScheduleRelationship: gtfs.StopTimeUpdateScheduleRelationship(vr.Int(vr.T("up", j, ".rel"), 0, 3)),
		})
	}
	return ups
}

// One update step of a journal trip from an arbitrary pre-state (k stop times,
// any marked-past pattern) with an arbitrary update of m stop time updates.
func Harness_C14_step() {
	k := vr.Int("k", 0, vr.Param("K", 2))
	m := vr.Int("m", 0, vr.Param("M", 2))
	now := vr.Unix(vr.I64("now"), time.UTC)
	trip := hPreTrip(k)
	pre := append([]StopTime(nil), trip.StopTimes...)
	ups := hUpdates(m)
	vid := gtfs.VehicleID{ID: vr.Str("veh.id")}
	update := gtfs.Trip{
		ID:              gtfs.TripID{ID: "123456_X..N", RouteID: vr.Str("up.route")},
		StopTimeUpdates: ups,
		Vehicle:         &gtfs.Vehicle{ID: &vid},
	}
	trip.update(&update, now)

	post := trip.StopTimes
	vr.Assert("C14.len", len(post) >= m && len(post)-m <= k)
	if len(post) < m || len(post)-m > k {
		return
	}
	p := len(post) - m
	// the kept prefix ends at an occurrence of the first updated stop (or the list is rewritten / kept whole)
	if m == 0 {
		vr.Assert("C14.no_drop_empty_update", p == k)
	} else {
		var absent = true
		var conds []bool
		for i := 0; i < k; i++ {
			conds = append(conds, pre[i].StopID != *ups[0].StopID)
		}
		absent = vr.And(conds...)
		if p < k {
			vr.Assert("C14.no_drop_before_first", vr.Or(pre[p].StopID == *ups[0].StopID, vr.And(absent, p == 0)))
		} else {
			// nothing of the old list was matched: only legal if the first updated stop is absent and the list was empty
			vr.Assert("C14.no_drop_before_first", vr.And(absent, p == 0))
		}
	}
	// the tail is exactly the update
	for j := 0; j < m; j++ {
		got := post[p+j]
		want := StopTime{
			StopID:        *ups[j].StopID,
			ArrivalTime:   ups[j].GetArrival().Time,
			DepartureTime: ups[j].GetDeparture().Time,
			Track:         ups[j].NyctTrack,
			LastObserved:  now,
			MarkedPast:    nil,
		}
		vr.Assert("C14.tail", vr.DeepEq(got, want))
	}
	// the kept entries are unchanged, and marked past exactly once
	for i := 0; i < p; i++ {
		want := pre[i]
		if want.MarkedPast == nil {
			want.MarkedPast = &now
		}
		vr.Assert("C14.kept_unchanged", vr.DeepEq(post[i], want))
	}
}
