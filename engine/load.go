package main

// Loading /repo with the harness overlay and building SSA.

import (
	"fmt"
	"go/ast"
	"os"
	"path/filepath"
	"strings"

	"golang.org/x/tools/go/packages"
	"golang.org/x/tools/go/ssa"
	"golang.org/x/tools/go/ssa/ssautil"
)

const repoMod = "github.com/jamespfennell/gtfs"

var repoDir = envOr("VERIF_REPO", "/repo")
var verifDir = envOr("VERIF_DIR", "/verif")

func envOr(k, d string) string {
	if v := os.Getenv(k); v != "" {
		return v
	}
	return d
}

type Program struct {
	Prog   *ssa.Program
	Pkgs   map[string]*ssa.Package // by import path
	LPkgs  map[string]*packages.Package
	Embeds map[string]string // "pkgpath.var" -> content
	Files  map[string]string // overlay: virtual -> real
}

// harnessPkgDirs maps a directory under /verif/harness to the repo-relative
// package directory the files are injected into.
var harnessPkgDirs = map[string]string{
	"root":       ".",
	"journal":    "journal",
	"nycttrips":  "extensions/nycttrips",
	"nyctalerts": "extensions/nyctalerts",
	"csv":        "csv",
	"verifrt":    "internal/verifrt",
	"verifh":     "internal/verifh",
	"verifmain":  "internal/verifmain",
}

// overlayFiles computes virtual->real file mapping. flavour is "sym" or "native".
func overlayFiles(flavour string) map[string]string {
	out := map[string]string{}
	for hd, rel := range harnessPkgDirs {
		dir := filepath.Join(verifDir, "harness", hd)
		ents, err := os.ReadDir(dir)
		if err != nil {
			continue
		}
		for _, en := range ents {
			n := en.Name()
			if !strings.HasSuffix(n, ".go") {
				continue
			}
			if strings.HasSuffix(n, "_sym.go") && flavour != "sym" {
				continue
			}
			if strings.HasSuffix(n, "_native.go") && flavour != "native" {
				continue
			}
			if hd == "verifmain" && flavour == "sym" {
				continue
			}
			out[filepath.Join(repoDir, rel, "zz_verif_"+n)] = filepath.Join(dir, n)
		}
	}
	return out
}

func LoadProgram() (*Program, error) {
	files := overlayFiles("sym")
	overlay := map[string][]byte{}
	for v, r := range files {
		b, err := os.ReadFile(r)
		if err != nil {
			return nil, err
		}
		overlay[v] = b
	}
	cfg := &packages.Config{
		Mode: packages.NeedName | packages.NeedFiles | packages.NeedCompiledGoFiles | packages.NeedImports |
			packages.NeedDeps | packages.NeedTypes | packages.NeedSyntax | packages.NeedTypesInfo |
			packages.NeedTypesSizes | packages.NeedModule | packages.NeedEmbedFiles | packages.NeedEmbedPatterns,
		Dir:        repoDir,
		BuildFlags: []string{"-tags=verif"},
		Overlay:    overlay,
		Env:        append(os.Environ(), "GOFLAGS=-mod=mod", "GOPROXY=off", "GOSUMDB=off", "GOTOOLCHAIN=local"),
	}
	pats := []string{repoMod, repoMod + "/journal", repoMod + "/extensions/nycttrips", repoMod + "/extensions/nyctalerts",
		repoMod + "/csv", repoMod + "/warnings", repoMod + "/internal/verifrt"}
	if _, err := os.Stat(filepath.Join(verifDir, "harness", "verifh")); err == nil {
		pats = append(pats, repoMod+"/internal/verifh")
	}
	lpkgs, err := packages.Load(cfg, pats...)
	if err != nil {
		return nil, err
	}
	nerr := 0
	packages.Visit(lpkgs, nil, func(p *packages.Package) {
		for _, e := range p.Errors {
			if strings.HasPrefix(p.PkgPath, repoMod) {
				fmt.Fprintln(os.Stderr, "load error:", e)
				nerr++
			}
		}
	})
	if nerr > 0 {
		return nil, fmt.Errorf("%d load errors in repo packages (does /repo compile with -tags verif?)", nerr)
	}
	prog, _ := ssautil.AllPackages(lpkgs, ssa.InstantiateGenerics)
	prog.Build()
	p := &Program{Prog: prog, Pkgs: map[string]*ssa.Package{}, LPkgs: map[string]*packages.Package{}, Embeds: map[string]string{}, Files: files}
	for _, sp := range prog.AllPackages() {
		p.Pkgs[sp.Pkg.Path()] = sp
	}
	packages.Visit(lpkgs, nil, func(lp *packages.Package) {
		p.LPkgs[lp.PkgPath] = lp
		if !strings.HasPrefix(lp.PkgPath, repoMod) {
			return
		}
		// //go:embed string variables
		for _, f := range lp.Syntax {
			for _, d := range f.Decls {
				gd, ok := d.(*ast.GenDecl)
				if !ok || gd.Doc == nil {
					continue
				}
				for _, c := range gd.Doc.List {
					if strings.HasPrefix(c.Text, "//go:embed ") {
						pat := strings.TrimSpace(strings.TrimPrefix(c.Text, "//go:embed "))
						for _, s := range gd.Specs {
							if vs, ok := s.(*ast.ValueSpec); ok && len(vs.Names) == 1 {
								dir := filepath.Dir(lp.Fset.Position(f.Pos()).Filename)
								b, err := os.ReadFile(filepath.Join(dir, pat))
								if err == nil {
									p.Embeds[lp.PkgPath+"."+vs.Names[0].Name] = string(b)
								}
							}
						}
					}
				}
			}
		}
	})
	return p, nil
}

func (p *Program) Func(pkgPath, name string) *ssa.Function {
	sp := p.Pkgs[pkgPath]
	if sp == nil {
		return nil
	}
	return sp.Func(name)
}
