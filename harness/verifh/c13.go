//go:build verif

package verifh

import (
	"time"

	"github.com/jamespfennell/gtfs"
	vr "github.com/jamespfennell/gtfs/internal/verifrt"
	gtfsrt "github.com/jamespfennell/gtfs/proto"
)

func init() {
	vr.Register("Harness_C13_trip_pair", Harness_C13_trip_pair)
	vr.Register("Harness_C13_vehicle_pair", Harness_C13_vehicle_pair)
	vr.Register("Harness_C13_ignored", Harness_C13_ignored)
}

// presence of the optionals of trip "a" is free; trip "b" copies it except
// for the optional number `flip` (-1: none), whose presence is inverted. So
// the pair space is: equal presence patterns, and patterns at Hamming distance 1.
type hPresence struct {
	flip  int
	flip2 int
	next  int
	src   []bool // nil-ness recorded while building the first trip
}

func (p *hPresence) first(tag string) bool { // is nil?
	b := vr.Bool(tag + ".nil")
	p.src = append(p.src, b)
	return b
}

func (p *hPresence) second() bool {
	i := p.next
	p.next++
	return p.src[i] != (p.flip == i || p.flip2 == i)
}

func hOpt[T any](nilp bool, v T) *T { return vr.MaybeNilIf(nilp, &v) }

func hEventA(tag string, p *hPresence) *gtfs.StopTimeEvent {
	if (vr.Param("ARR", 1) == 0 && tag[len(tag)-7:] == "arrival") || (vr.Param("DEP", 1) == 0 && tag[len(tag)-9:] == "departure") {
		return nil
	}
	t := vr.Unix(vr.I64(tag+".time"), time.UTC)
	d := time.Duration(vr.I64(tag + ".delay"))
	ev := gtfs.StopTimeEvent{Time: hOpt(p.first(tag+".time"), t), Delay: hOpt(p.first(tag+".delay"), d), Uncertainty: hOpt(p.first(tag+".uncertainty"), vr.I32(tag+".uncertainty"))}
	return vr.MaybeNilIf(p.first(tag), &ev)
}

func hEventB(tag string, p *hPresence) *gtfs.StopTimeEvent {
	if (vr.Param("ARR", 1) == 0 && tag[len(tag)-7:] == "arrival") || (vr.Param("DEP", 1) == 0 && tag[len(tag)-9:] == "departure") {
		return nil
	}
	t := vr.Unix(vr.I64(tag+".time"), time.UTC)
	d := time.Duration(vr.I64(tag + ".delay"))
	ev := gtfs.StopTimeEvent{Time: hOpt(p.second(), t), Delay: hOpt(p.second(), d), Uncertainty: hOpt(p.second(), vr.I32(tag+".uncertainty"))}
	return vr.MaybeNilIf(p.second(), &ev)
}

// hS is a symbolic string, or (FOCUS=1: only numbers and presence vary) a fixed one.
func hS(tag string) string {
	if vr.Param("FOCUS", 0) == 1 {
		return "s"
	}
	return vr.Str(tag)
}

func hHashTripID(tag string) gtfs.TripID {
	return gtfs.TripID{ID: hS(tag + ".id"), RouteID: hS(tag + ".route"), DirectionID: gtfs.DirectionID(vr.Int(tag+".direction", 0, 2)),
		HasStartTime: vr.Bool(tag + ".has_start_time"), StartTime: time.Duration(vr.I64(tag + ".start_time")),
		HasStartDate: vr.Bool(tag + ".has_start_date"), StartDate: vr.Unix(vr.I64(tag+".start_date"), time.UTC),
		ScheduleRelationship: gtfsrt.TripDescriptor_ScheduleRelationship(vr.I32(tag + ".schedule_relationship"))}
}

func hHashTripA(tag string, n int, p *hPresence) *gtfs.Trip {
	t := &gtfs.Trip{ID: hHashTripID(tag)}
	for i := 0; i < n; i++ {
		st := vr.T(tag, ".stu", i)
		t.StopTimeUpdates = append(t.StopTimeUpdates, gtfs.StopTimeUpdate{
			StopSequence: hOpt(p.first(st+".sequence"), vr.U32(st+".sequence")), StopID: hOpt(p.first(st+".stop"), hS(st+".stop")),
			NyctTrack: hOpt(p.first(st+".track"), hS(st+".track")), ScheduleRelationship: gtfsrt.TripUpdate_StopTimeUpdate_ScheduleRelationship(vr.I32(st + ".rel")),
			Arrival: hEventA(st+".arrival", p), Departure: hEventA(st+".departure", p)})
	}
	return t
}

func hHashTripB(tag string, n int, p *hPresence) *gtfs.Trip {
	t := &gtfs.Trip{ID: hHashTripID(tag)}
	for i := 0; i < n; i++ {
		st := vr.T(tag, ".stu", i)
		var u gtfs.StopTimeUpdate
		if p != nil && p.next < len(p.src) {
			u = gtfs.StopTimeUpdate{StopSequence: hOpt(p.second(), vr.U32(st+".sequence")), StopID: hOpt(p.second(), hS(st+".stop")),
				NyctTrack: hOpt(p.second(), hS(st+".track")), ScheduleRelationship: gtfsrt.TripUpdate_StopTimeUpdate_ScheduleRelationship(vr.I32(st + ".rel")),
				Arrival: hEventB(st+".arrival", p), Departure: hEventB(st+".departure", p)}
		} else {
			q := &hPresence{flip: -1, flip2: -1}
			u = hHashTripA(tag+".extra", 1, q).StopTimeUpdates[0]
		}
		t.StopTimeUpdates = append(t.StopTimeUpdates, u)
	}
	return t
}

func hEventEq(a, b *gtfs.StopTimeEvent) bool {
	return vr.DeepEq(a, b)
}

// hTripDataEq is the relation of the statement: agreement on every data field
// (absent distinguished from zero; instants by Unix seconds).
func hTripDataEq(a, b *gtfs.Trip) bool {
	if len(a.StopTimeUpdates) != len(b.StopTimeUpdates) {
		return false
	}
	eq := vr.And(a.ID.ID == b.ID.ID, a.ID.RouteID == b.ID.RouteID, a.ID.DirectionID == b.ID.DirectionID, a.ID.HasStartDate == b.ID.HasStartDate,
		a.ID.StartDate.Unix() == b.ID.StartDate.Unix(), a.ID.HasStartTime == b.ID.HasStartTime, a.ID.StartTime == b.ID.StartTime, a.ID.ScheduleRelationship == b.ID.ScheduleRelationship)
	for i := range a.StopTimeUpdates {
		x, y := &a.StopTimeUpdates[i], &b.StopTimeUpdates[i]
		eq = vr.And(eq, vr.DeepEq(x.StopSequence, y.StopSequence), vr.DeepEq(x.StopID, y.StopID), vr.DeepEq(x.NyctTrack, y.NyctTrack),
			x.ScheduleRelationship == y.ScheduleRelationship, hEventEq(x.Arrival, y.Arrival), hEventEq(x.Departure, y.Departure))
	}
	return eq
}

// Two symbolic trips with N1 and N2 stop time updates; strings of symbolic
// length; the hash streams are equal exactly when the data agree.
func Harness_C13_trip_pair() {
	n1, n2 := vr.Param("N1", 1), vr.Param("N2", 1)
	p := &hPresence{flip: -1, flip2: -1}
	a := hHashTripA("a", n1, p)
	p.flip = hConcretize(vr.Int("flip", -1, len(p.src)-1), -1, len(p.src)-1)
	if vr.Param("FLIPS", 1) == 2 && p.flip >= 0 {
		// a second inverted optional, after the first (pairs at Hamming distance 2)
		p.flip2 = hConcretize(vr.Int("flip2", p.flip, len(p.src)-1), p.flip, len(p.src)-1)
		if p.flip2 == p.flip {
			p.flip2 = -1
		}
	}
	b := hHashTripB("b", n2, p)
	sa, sb := &vr.Sink{}, &vr.Sink{}
	a.Hash(sa)
	b.Hash(sb)
	vr.Assert("C13.trip.iff", vr.StreamEq(sa, sb) == hTripDataEq(a, b))
}

func hHashVehicle(tag string, nilOf func(string) bool, trip *gtfs.Trip) *gtfs.Vehicle {
	id := gtfs.VehicleID{ID: vr.Str(tag + ".id"), Label: vr.Str(tag + ".label"), LicensePlate: vr.Str(tag + ".plate")}
	pos := gtfs.Position{Latitude: hOpt(nilOf("lat"), vr.F32(tag+".lat")), Longitude: hOpt(nilOf("lon"), vr.F32(tag+".lon")), Bearing: hOpt(nilOf("bearing"), vr.F32(tag+".bearing")),
		Odometer: hOpt(nilOf("odometer"), vr.F64(tag+".odometer")), Speed: hOpt(nilOf("speed"), vr.F32(tag+".speed"))}
	ts := vr.Unix(vr.I64(tag+".timestamp"), time.UTC)
	v := &gtfs.Vehicle{ID: vr.MaybeNilIf(nilOf("id"), &id), Position: vr.MaybeNilIf(nilOf("position"), &pos),
		CurrentStopSequence: hOpt(nilOf("seq"), vr.U32(tag+".seq")), StopID: hOpt(nilOf("stop"), vr.Str(tag+".stop")),
		CurrentStatus: hOpt(nilOf("status"), gtfs.CurrentStatus(vr.I32(tag+".status"))), Timestamp: hOpt(nilOf("timestamp"), ts),
		CongestionLevel: gtfs.CongestionLevel(vr.I32(tag + ".congestion")), OccupancyStatus: hOpt(nilOf("occupancy"), gtfs.OccupancyStatus(vr.I32(tag+".occupancy"))),
		OccupancyPercentage: hOpt(nilOf("occupancy_pct"), vr.U32(tag+".occupancy_pct"))}
	v.Trip = vr.MaybeNilIf(nilOf("trip"), trip)
	return v
}

var hVehOpts = []string{"id", "position", "lat", "lon", "bearing", "odometer", "speed", "seq", "stop", "status", "timestamp", "occupancy", "occupancy_pct", "trip"}

func hVehicleDataEq(a, b *gtfs.Vehicle) bool {
	tripEq := vr.And(a.Trip == nil, b.Trip == nil)
	if a.Trip != nil && b.Trip != nil {
		tripEq = hTripDataEq(a.Trip, b.Trip)
	}
	return vr.And(vr.DeepEq(a.ID, b.ID), tripEq, vr.DeepEq(a.Position, b.Position), vr.DeepEq(a.CurrentStopSequence, b.CurrentStopSequence), vr.DeepEq(a.StopID, b.StopID),
		vr.DeepEq(a.CurrentStatus, b.CurrentStatus), vr.DeepEq(a.Timestamp, b.Timestamp), a.CongestionLevel == b.CongestionLevel,
		vr.DeepEq(a.OccupancyStatus, b.OccupancyStatus), vr.DeepEq(a.OccupancyPercentage, b.OccupancyPercentage))
}

func Harness_C13_vehicle_pair() {
	flip := hConcretize(vr.Int("flip", -1, len(hVehOpts)-1), -1, len(hVehOpts)-1)
	// GROUP selects which optionals vary in presence (the others are present in both vehicles)
	groups := [][]string{{"id", "position", "trip"}, {"lat", "lon", "bearing", "odometer", "speed"}, {"seq", "stop", "status", "timestamp", "occupancy", "occupancy_pct"}}
	vary := map[string]bool{}
	for _, o := range groups[vr.Param("GROUP", 0)] {
		vary[o] = true
	}
	nilA := map[string]bool{}
	for _, o := range hVehOpts {
		if vary[o] {
			nilA[o] = vr.Bool("a." + o + ".nil")
		}
	}
	ofA := func(o string) bool { return nilA[o] }
	ofB := func(o string) bool { return nilA[o] != (vary[o] && flip >= 0 && hVehOpts[flip%len(hVehOpts)] == o) }
	q := &hPresence{flip: -1, flip2: -1}
	ta := hHashTripA("a.trip", vr.Param("NT", 0), q)
	q2 := &hPresence{flip: -1, flip2: -1}
	tb := hHashTripA("b.trip", vr.Param("NT", 0), q2)
	a := hHashVehicle("a", ofA, ta)
	b := hHashVehicle("b", ofB, tb)
	sa, sb := &vr.Sink{}, &vr.Sink{}
	a.Hash(sa)
	b.Hash(sb)
	vr.Assert("C13.vehicle.iff", vr.StreamEq(sa, sb) == hVehicleDataEq(a, b))
}

// The hash ignores object identity, zone presentation of equal instants, the
// in-message flag and the trip's vehicle back-reference; hashing twice gives the same stream.
func Harness_C13_ignored() {
	p := &hPresence{flip: -1, flip2: -1}
	a := hHashTripA("a", vr.Param("N1", 1), p)
	b := hHashTripA("a", vr.Param("N1", 1), &hPresence{flip: -1, flip2: -1}) // same data, fresh objects
	ny, err := time.LoadLocation("America/New_York")
	vr.Assume(err == nil)
	b.ID.StartDate = b.ID.StartDate.In(ny)
	for i := range b.StopTimeUpdates {
		if ev := b.StopTimeUpdates[i].Arrival; ev != nil && ev.Time != nil {
			t := ev.Time.In(ny)
			ev.Time = &t
		}
	}
	b.IsEntityInMessage = !a.IsEntityInMessage
	b.Vehicle = &gtfs.Vehicle{ID: &gtfs.VehicleID{ID: vr.Str("b.vehicle")}}
	sa, sb, sa2 := &vr.Sink{}, &vr.Sink{}, &vr.Sink{}
	a.Hash(sa)
	b.Hash(sb)
	a.Hash(sa2)
	vr.Assert("C13.ignored", vr.StreamEq(sa, sb))
	vr.Assert("C13.repeatable", vr.StreamEq(sa, sa2))
}
