package main

// regexp: the repository's real patterns (taken from its executed init) are
// compiled with regexp/syntax; matching on character-level strings is a
// leftmost-first backtracking search over the compiled program, forking on
// character-class tests. On SMT strings an anchored pattern becomes str.in_re
// with fixed-offset groups.

import (
	"fmt"
	"regexp"
	"regexp/syntax"
	"strings"
	"sync"

	"golang.org/x/tools/go/ssa"
)

type reObj struct {
	pattern string
	prog    *syntax.Prog
	re      *syntax.Regexp
	ncap    int
	real    *regexp.Regexp
}

var reCache sync.Map

func compileRe(pattern string) (*reObj, error) {
	if v, ok := reCache.Load(pattern); ok {
		return v.(*reObj), nil
	}
	re, err := syntax.Parse(pattern, syntax.Perl)
	if err != nil {
		return nil, err
	}
	ncap := re.MaxCap()
	sre := re.Simplify()
	prog, err := syntax.Compile(sre)
	if err != nil {
		return nil, err
	}
	o := &reObj{pattern: pattern, prog: prog, re: re, ncap: ncap, real: regexp.MustCompile(pattern)}
	reCache.Store(pattern, o)
	return o, nil
}

type reMatcher struct {
	e       *Exec
	prog    *syntax.Prog
	chars   []*Term
	visited map[[2]int]bool
}

func (m *reMatcher) runeCond(inst *syntax.Inst, c *Term) *Term {
	tf := m.e.tf
	switch inst.Op {
	case syntax.InstRuneAny:
		return tf.Bool(true)
	case syntax.InstRuneAnyNotNL:
		return tf.Not(tf.Eq(c, tf.Int('\n')))
	}
	if syntax.Flags(inst.Arg)&syntax.FoldCase != 0 {
		m.e.unsupported("case-folding regexp on symbolic input")
	}
	rs := inst.Rune
	if len(rs) == 1 {
		return tf.Eq(c, tf.Int(int64(rs[0])))
	}
	var alts []*Term
	for i := 0; i+1 < len(rs); i += 2 {
		if rs[i] == rs[i+1] {
			alts = append(alts, tf.Eq(c, tf.Int(int64(rs[i]))))
		} else {
			alts = append(alts, tf.And(tf.Le(tf.Int(int64(rs[i])), c), tf.Le(c, tf.Int(int64(rs[i+1])))))
		}
	}
	return tf.Or(alts...)
}

func (m *reMatcher) step(pc, pos int, cap []int) ([]int, bool) {
	for {
		k := [2]int{pc, pos}
		if m.visited[k] {
			return nil, false
		}
		m.visited[k] = true
		inst := &m.prog.Inst[pc]
		switch inst.Op {
		case syntax.InstFail:
			return nil, false
		case syntax.InstMatch:
			return cap, true
		case syntax.InstNop:
			pc = int(inst.Out)
		case syntax.InstCapture:
			if int(inst.Arg) < len(cap) {
				nc := append([]int{}, cap...)
				nc[inst.Arg] = pos
				cap = nc
			}
			pc = int(inst.Out)
		case syntax.InstEmptyWidth:
			f := syntax.EmptyOp(inst.Arg)
			ok := true
			if f&syntax.EmptyBeginText != 0 && pos != 0 {
				ok = false
			}
			if f&syntax.EmptyEndText != 0 && pos != len(m.chars) {
				ok = false
			}
			if f&^(syntax.EmptyBeginText|syntax.EmptyEndText) != 0 {
				m.e.unsupported("regexp empty-width operator %v on symbolic input", f)
			}
			if !ok {
				return nil, false
			}
			pc = int(inst.Out)
		case syntax.InstAlt, syntax.InstAltMatch:
			if c, ok := m.step(int(inst.Out), pos, cap); ok {
				return c, true
			}
			pc = int(inst.Arg)
		case syntax.InstRune, syntax.InstRune1, syntax.InstRuneAny, syntax.InstRuneAnyNotNL:
			if pos >= len(m.chars) {
				return nil, false
			}
			if !m.e.decide(m.runeCond(inst, m.chars[pos])) {
				return nil, false
			}
			pc = int(inst.Out)
			pos++
		default:
			m.e.unsupported("regexp instruction %v", inst.Op)
		}
	}
}

// findSubmatch returns capture indices (nil = no match) for a character-level string.
func (e *Exec) reFind(ro *reObj, s StrV) []int {
	if cs, ok := s.Const(); ok {
		return ro.real.FindStringSubmatchIndex(cs)
	}
	m := &reMatcher{e: e, prog: ro.prog, chars: s.Chars, visited: map[[2]int]bool{}}
	anchored := ro.prog.StartCond()&syntax.EmptyBeginText != 0
	for start := 0; start <= len(s.Chars); start++ {
		cap := make([]int, 2*(ro.ncap+1))
		for i := range cap {
			cap[i] = -1
		}
		if c, ok := m.step(ro.prog.Start, start, cap); ok {
			return c
		}
		if anchored {
			break
		}
	}
	return nil
}

// smtRegex renders a syntax.Regexp as an SMT-LIB regular expression.
func smtRegex(re *syntax.Regexp) (string, bool) {
	switch re.Op {
	case syntax.OpEmptyMatch:
		return `(str.to_re "")`, true
	case syntax.OpLiteral:
		return "(str.to_re " + smtStr(string(re.Rune)) + ")", true
	case syntax.OpCharClass:
		var alts []string
		for i := 0; i+1 < len(re.Rune); i += 2 {
			lo, hi := re.Rune[i], re.Rune[i+1]
			if hi > 127 {
				hi = 127
			}
			if lo > hi {
				continue
			}
			alts = append(alts, fmt.Sprintf("(re.range %s %s)", smtStr(string(lo)), smtStr(string(hi))))
		}
		if len(alts) == 0 {
			return "re.none", true
		}
		if len(alts) == 1 {
			return alts[0], true
		}
		return "(re.union " + strings.Join(alts, " ") + ")", true
	case syntax.OpAnyCharNotNL, syntax.OpAnyChar:
		return "re.allchar", true
	case syntax.OpCapture:
		return smtRegex(re.Sub[0])
	case syntax.OpStar, syntax.OpPlus, syntax.OpQuest:
		s, ok := smtRegex(re.Sub[0])
		if !ok {
			return "", false
		}
		op := map[syntax.Op]string{syntax.OpStar: "re.*", syntax.OpPlus: "re.+", syntax.OpQuest: "re.opt"}[re.Op]
		return "(" + op + " " + s + ")", true
	case syntax.OpRepeat:
		s, ok := smtRegex(re.Sub[0])
		if !ok {
			return "", false
		}
		if re.Max < 0 {
			return fmt.Sprintf("(re.++ ((_ re.^ %d) %s) (re.* %s))", re.Min, s, s), true
		}
		return fmt.Sprintf("((_ re.loop %d %d) %s)", re.Min, re.Max, s), true
	case syntax.OpConcat, syntax.OpAlternate:
		var parts []string
		for _, sub := range re.Sub {
			if sub.Op == syntax.OpBeginText || sub.Op == syntax.OpEndText {
				continue
			}
			s, ok := smtRegex(sub)
			if !ok {
				return "", false
			}
			parts = append(parts, s)
		}
		if len(parts) == 0 {
			return `(str.to_re "")`, true
		}
		if len(parts) == 1 {
			return parts[0], true
		}
		op := "re.++"
		if re.Op == syntax.OpAlternate {
			op = "re.union"
		}
		return "(" + op + " " + strings.Join(parts, " ") + ")", true
	}
	return "", false
}

func fixedWidth(re *syntax.Regexp) (int, bool) {
	switch re.Op {
	case syntax.OpEmptyMatch, syntax.OpBeginText, syntax.OpEndText:
		return 0, true
	case syntax.OpLiteral:
		return len(re.Rune), true
	case syntax.OpCharClass, syntax.OpAnyChar, syntax.OpAnyCharNotNL:
		return 1, true
	case syntax.OpCapture:
		return fixedWidth(re.Sub[0])
	case syntax.OpRepeat:
		if re.Min == re.Max {
			w, ok := fixedWidth(re.Sub[0])
			return w * re.Min, ok
		}
	case syntax.OpConcat:
		n := 0
		for _, s := range re.Sub {
			w, ok := fixedWidth(s)
			if !ok {
				return 0, false
			}
			n += w
		}
		return n, true
	}
	return 0, false
}

// groupOffsets: for an anchored top-level concatenation, the (offset,width) of
// each top-level capture group while everything before it has fixed width.
func groupOffsets(re *syntax.Regexp) (map[int][2]int, bool) {
	out := map[int][2]int{}
	if re.Op != syntax.OpConcat || len(re.Sub) == 0 || re.Sub[0].Op != syntax.OpBeginText || re.Sub[len(re.Sub)-1].Op != syntax.OpEndText {
		return nil, false
	}
	off := 0
	fixed := true
	for _, s := range re.Sub {
		w, ok := fixedWidth(s)
		if s.Op == syntax.OpCapture && fixed && ok {
			out[s.Cap] = [2]int{off, w}
		}
		if !ok {
			fixed = false
		}
		off += w
	}
	return out, true
}

func init() {
	mk := func(e *Exec, fr *Frame, fn *ssa.Function, a []Value) Value {
		pat, ok := a[0].(StrV).Const()
		if !ok {
			e.unsupported("regexp with symbolic pattern")
		}
		ro, err := compileRe(pat)
		if err != nil {
			e.fail("panic", "panic:explicit", e.siteOf(fr), "regexp: "+err.Error(), "")
		}
		o := e.newObj(StructV{}, nil)
		o.Aux = ro
		o.Name = "regexp:" + pat
		return Ptr{Obj: o}
	}
	stubs["regexp.MustCompile"] = mk
	stubs["(*regexp.Regexp).FindStringSubmatch"] = func(e *Exec, fr *Frame, fn *ssa.Function, a []Value) Value {
		p := a[0].(Ptr)
		if e.curFoot != nil {
			e.curFoot.read(p)
		}
		ro := p.Obj.Aux.(*reObj)
		s := e.resolveStr(a[1].(StrV))
		tf := e.tf
		strT := fn.Signature.Results().At(0).Type()
		_ = strT
		mkSlice := func(parts []Value) Value {
			arr := e.newObj(ArrayV{E: parts}, nil)
			return SliceV{Arr: arr, Len: len(parts), Cap: len(parts)}
		}
		if s.IsCh {
			cap := e.reFind(ro, s)
			if cap == nil {
				return SliceV{}
			}
			parts := make([]Value, len(cap)/2)
			for i := range parts {
				if cap[2*i] < 0 {
					parts[i] = chStr(tf, "")
				} else {
					parts[i] = StrV{Chars: s.Chars[cap[2*i]:cap[2*i+1]], IsCh: true}
				}
			}
			return mkSlice(parts)
		}
		offs, anchored := groupOffsets(ro.re)
		sre, ok := smtRegex(ro.re)
		if !ok || !anchored {
			e.unsupported("regexp %q on a symbolic-length string", ro.pattern)
		}
		if !e.decide(tf.InRe(s.T, sre)) {
			return SliceV{}
		}
		parts := make([]Value, ro.ncap+1)
		parts[0] = s
		for i := 1; i <= ro.ncap; i++ {
			if ow, ok := offs[i]; ok {
				sub := tf.Substr(s.T, tf.Int(int64(ow[0])), tf.Int(int64(ow[1])))
				// materialise fixed-width groups as characters so that Atoi is structural
				cs := make([]*Term, ow[1])
				for k := range cs {
					cs[k] = tf.CodeAt(s.T, tf.Int(int64(ow[0]+k)))
				}
				_ = sub
				parts[i] = StrV{Chars: cs, IsCh: true}
			} else {
				parts[i] = StrV{T: tf.UF(fmt.Sprintf("regroup_%d_%d", hashStr(ro.pattern), i), SStr, s.T)}
			}
		}
		return mkSlice(parts)
	}
}

func init() {
	stubs["(*regexp.Regexp).MatchString"] = func(e *Exec, fr *Frame, fn *ssa.Function, a []Value) Value {
		p := a[0].(Ptr)
		if e.curFoot != nil {
			e.curFoot.read(p)
		}
		ro := p.Obj.Aux.(*reObj)
		s := e.resolveStr(a[1].(StrV))
		if s.IsCh {
			return e.tf.Bool(e.reFind(ro, s) != nil)
		}
		sre, ok := smtRegex(ro.re)
		if !ok {
			e.unsupported("regexp %q on a symbolic-length string", ro.pattern)
		}
		if _, anchored := groupOffsets(ro.re); !anchored {
			sre = "(re.++ re.all " + sre + " re.all)"
		}
		return e.tf.InRe(s.T, sre)
	}
}
