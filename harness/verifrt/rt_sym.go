//go:build verif

// Package verifrt is the harness runtime. This is the symbolic flavour: the
// functions are declarations only; the engine (ssasym) intercepts them by name.
package verifrt

import (
	"time"

	gtfsrt "github.com/jamespfennell/gtfs/proto"
)

func Bool(tag string) bool
func Int(tag string, lo, hi int) int
func I32(tag string) int32
func U32(tag string) uint32
func I64(tag string) int64
func U64(tag string) uint64
func F32(tag string) float32
func F64(tag string) float64
func Str(tag string) string
func Chars(tag string, n int, class string) string
func OneOf(tag string, opts ...string) string
func Assume(ok bool)
func Assert(id string, ok bool)
func Observe(id string, v any)
func DeepEq(a, b any) bool
func MaybeNil[T any](tag string, p *T) *T { return p } // intercepted by the engine
func T(parts ...any) string
func MapOrder(mode string)
func Cfg(key, val string)
func Param(name string, def int) int
func Unix(sec int64, loc *time.Location) time.Time
func Symbolic() bool
func SplitCSV(b []byte) [][]string

// Sink is a hash.Hash that records the bytes it is fed.
type Sink struct{ B []byte }

func (s *Sink) Write(p []byte) (int, error)
func (s *Sink) Sum(b []byte) []byte { return nil }
func (s *Sink) Reset()              {}
func (s *Sink) Size() int           { return 0 }
func (s *Sink) BlockSize() int      { return 1 }
func StreamEq(a, b *Sink) bool
func MaybeNilIf[T any](isNil bool, p *T) *T { return p } // intercepted by the engine
func Footprint(label string, f func())
func ConflictFree(a, b string) bool
func WritesNothingShared(a string) bool
func Repeat(n int) int
// File is one member of a GTFS static archive given as a table.
type File struct {
	Name   string
	Header []string
	Rows   [][]string
	BOM    bool
	// QuotedHeader: every header cell is written inside double quotes (a legal CSV presentation)
	QuotedHeader bool
}

func Archive(files []File) []byte

// DirEntry is one entry of a feed directory: Kind 0 readable file holding Msg, 1 unreadable (a sub-directory), 2 corrupt bytes, 3 empty file, 4 a symbolic link to a readable file holding Msg.
type DirEntry struct {
	Name string
	Kind int
	Msg  *gtfsrt.FeedMessage
}

func Dir(entries []DirEntry) string
func Marshal(m *gtfsrt.FeedMessage) []byte
func BadBytes() []byte
func And(xs ...bool) bool
func Or(xs ...bool) bool
func Implies(a, b bool) bool

func Ite[X any](c bool, a, b X) X { if c { return a }; return b } // intercepted by the engine

func P[X any](v X) *X { return &v }

func Register(name string, f func())
