package main

// archive/zip, x/text BOM handling and encoding/csv: the harness's vr.Archive
// value is a set of tables; zip.NewReader lists the members, Open yields a
// handle, the transform/csv constructors build a pipeline descriptor, and
// (*csv.Reader).Read hands out the rows honouring the ReuseRecord field the
// repository sets. The container/CSV byte syntax is library code (outside the
// claim); BOM handling is modelled at contract level: a member flagged BOM
// delivers U+FEFF glued to its first header cell unless the pipeline contains
// unicode.BOMOverride.

import (
	"go/types"
	"strings"

	"golang.org/x/tools/go/ssa"
)

type archiveBlob struct {
	files SliceV // []vr.File (snapshot)
	bad   bool
}

type tableSrc struct {
	file     StructV // vr.File{Name, Header, Rows, BOM, Fault}
	bomStrip bool
}

type csvState struct {
	src  *tableSrc
	row  int
	last *SliceV
}

func fieldIndex(t types.Type, name string) int {
	st, ok := t.Underlying().(*types.Struct)
	if !ok {
		return -1
	}
	for i := 0; i < st.NumFields(); i++ {
		if st.Field(i).Name() == name {
			return i
		}
	}
	return -1
}

func (e *Exec) sliceElems(s SliceV) []Value {
	out := make([]Value, s.Len)
	for i := range out {
		out[i] = getPath(s.Arr.V, []int{s.Off + i})
	}
	return out
}

func (e *Exec) newSlice(vals []Value, et types.Type) SliceV {
	arr := e.newObj(ArrayV{E: append([]Value{}, vals...)}, nil)
	return SliceV{Arr: arr, Len: len(vals), Cap: len(vals)}
}

func (e *Exec) ioEOF() Value {
	io := e.P.Pkgs["io"]
	if io == nil {
		e.unsupported("package io not loaded")
	}
	return e.global(io.Var("EOF")).V
}

func init() {
	intrinsics["Archive"] = func(e *Exec, fr *Frame, fn *ssa.Function, a []Value) Value {
		files := e.deepCopy(a[0], map[*Obj]*Obj{}, map[*MapObj]*MapObj{}).(SliceV)
		arr := e.newObj(ArrayV{E: []Value{e.tf.Int(0)}}, nil) // opaque non-empty content
		arr.Aux = &archiveBlob{files: files}
		arr.Name = "bytes:archive"
		return SliceV{Arr: arr, Len: 1, Cap: 1}
	}
	stubs["bytes.NewReader"] = func(e *Exec, fr *Frame, fn *ssa.Function, a []Value) Value {
		o := e.newObj(StructV{}, nil)
		o.Aux = a[0].(SliceV)
		o.Name = "bytes.Reader"
		return Ptr{Obj: o}
	}
	stubs["archive/zip.NewReader"] = func(e *Exec, fr *Frame, fn *ssa.Function, a []Value) Value {
		rd := a[0].(IfaceV).V.(Ptr)
		b, _ := rd.Obj.Aux.(SliceV)
		var blob *archiveBlob
		if b.Arr != nil {
			if e.curFoot != nil {
				e.curFoot.read(Ptr{Obj: b.Arr})
			}
			blob, _ = b.Arr.Aux.(*archiveBlob)
		}
		rt := fn.Signature.Results().At(0).Type().(*types.Pointer).Elem() // zip.Reader
		if blob == nil || blob.bad {
			return TupleV{Ptr{}, e.newError("zip: not a valid zip file")}
		}
		fileIdx := fieldIndex(rt, "File")
		ft := rt.Underlying().(*types.Struct).Field(fileIdx).Type().(*types.Slice).Elem().(*types.Pointer).Elem() // zip.File
		hdrIdx := fieldIndex(ft, "FileHeader")
		ht := ft.Underlying().(*types.Struct).Field(hdrIdx).Type()
		nameIdx := fieldIndex(ht, "Name")
		var members []Value
		for _, fv := range e.sliceElems(blob.files) {
			f := fv.(StructV)
			fo := e.newObj(e.zero(ft), ft)
			fo.V = setPath(fo.V, []int{hdrIdx, nameIdx}, f.F[0])
			fo.Aux = &tableSrc{file: f}
			members = append(members, Ptr{Obj: fo})
		}
		ro := e.newObj(e.zero(rt), rt)
		ro.V = setPath(ro.V, []int{fileIdx}, e.newSlice(members, nil))
		return TupleV{Ptr{Obj: ro}, IfaceV{}}
	}
	stubs["(*archive/zip.File).Open"] = func(e *Exec, fr *Frame, fn *ssa.Function, a []Value) Value {
		p := a[0].(Ptr)
		src, ok := p.Obj.Aux.(*tableSrc)
		if !ok {
			e.unsupported("zip.File.Open on a file not produced by the harness")
		}
		o := e.newObj(StructV{}, nil)
		o.Aux = &tableSrc{file: src.file}
		return TupleV{IfaceV{T: opaqueTypeOf("tablereader"), V: Ptr{Obj: o}}, IfaceV{}}
	}
	opaqueMethods["$tablereader.Close"] = func(e *Exec, fr *Frame, recv IfaceV, a []Value) Value { return IfaceV{} }
	opaqueMethods["$golang.org/x/text/encoding.Nop.NewDecoder"] = func(e *Exec, fr *Frame, recv IfaceV, a []Value) Value {
		o := e.newObj(StructV{}, nil)
		o.Aux = "decoder:nop"
		return Ptr{Obj: o}
	}
	stubs["golang.org/x/text/encoding/unicode.BOMOverride"] = func(e *Exec, fr *Frame, fn *ssa.Function, a []Value) Value {
		o := e.newObj(StructV{}, nil)
		o.Aux = "transformer:bomoverride"
		return IfaceV{T: opaqueTypeOf("transformer"), V: Ptr{Obj: o}}
	}
	stubs["golang.org/x/text/transform.NewReader"] = func(e *Exec, fr *Frame, fn *ssa.Function, a []Value) Value {
		src := a[0].(IfaceV).V.(Ptr).Obj.Aux.(*tableSrc)
		strip := false
		if t, ok := a[1].(IfaceV); ok && t.T != nil {
			if p, ok := t.V.(Ptr); ok && p.Obj != nil && p.Obj.Aux == "transformer:bomoverride" {
				strip = true
				// a transformer is stateful: NewReader resets it and every Read drives it
				if e.curFoot != nil {
					e.curFoot.write(Ptr{Obj: p.Obj}, e)
				}
			}
		}
		o := e.newObj(StructV{}, nil)
		o.Aux = &tableSrc{file: src.file, bomStrip: strip || src.bomStrip}
		return Ptr{Obj: o}
	}
	stubs["encoding/csv.NewReader"] = func(e *Exec, fr *Frame, fn *ssa.Function, a []Value) Value {
		var src *tableSrc
		if p, ok := a[0].(IfaceV).V.(Ptr); ok && p.Obj != nil {
			src, _ = p.Obj.Aux.(*tableSrc)
		}
		if src == nil {
			e.unsupported("csv.NewReader over a reader not produced by the harness")
		}
		rt := fn.Signature.Results().At(0).Type().(*types.Pointer).Elem()
		o := e.newObj(e.zero(rt), rt)
		o.V = setPath(o.V, []int{fieldIndex(rt, "Comma")}, e.tf.Int(','))
		o.Aux = &csvState{src: src}
		return Ptr{Obj: o}
	}
	stubs["(*encoding/csv.Reader).Read"] = func(e *Exec, fr *Frame, fn *ssa.Function, a []Value) Value {
		p := a[0].(Ptr)
		st := p.Obj.Aux.(*csvState)
		f := st.src.file
		header := f.F[1].(SliceV)
		rows := f.F[2].(SliceV)
		bom := f.F[3].(*Term)
		var cells []Value
		if st.row == 0 {
			if header.Arr == nil && rows.Len == 0 {
				return TupleV{SliceV{}, e.ioEOF()}
			}
			cells = e.sliceElems(header)
			if len(cells) > 0 && !st.src.bomStrip && e.decide(bom) {
				// nothing in the pipeline removes the mark: it is glued to the first header cell, and if that
				// cell is written in quotes the reader meets a quote inside an unquoted field
				if len(f.F) > 4 && e.decide(f.F[4].(*Term)) {
					if getPath(p.Obj.V, []int{fieldIndex(p.Obj.Typ, "LazyQuotes")}).(*Term).IsTrue() {
						e.unsupported("csv.Reader with LazyQuotes over a BOM followed by a quoted cell")
					}
					st.row++
					return TupleV{SliceV{}, e.newError("parse error on line 1, column 4: bare \" in non-quoted-field")}
				}
				cells[0] = strConcat(e.tf, chStr(e.tf, "\xef\xbb\xbf"), cells[0].(StrV))
			}
		} else {
			if st.row-1 >= rows.Len {
				return TupleV{SliceV{}, e.ioEOF()}
			}
			cells = e.sliceElems(getPath(rows.Arr.V, []int{rows.Off + st.row - 1}).(SliceV))
		}
		st.row++
		rt := p.Obj.Typ
		// reader settings the repository may change: TrimLeadingSpace is modelled, the others must keep their defaults
		if c, ok := constInt(getPath(p.Obj.V, []int{fieldIndex(rt, "Comma")}).(*Term)); !ok || c != ',' {
			e.unsupported("csv.Reader with a non-default Comma")
		}
		if c, ok := constInt(getPath(p.Obj.V, []int{fieldIndex(rt, "Comment")}).(*Term)); !ok || c != 0 {
			e.unsupported("csv.Reader with a Comment character")
		}
		// FieldsPerRecord as documented: 0 = the first record fixes the count (and the reader stores it),
		// positive = required count, negative = no check
		fpr, ok := constInt(getPath(p.Obj.V, []int{fieldIndex(rt, "FieldsPerRecord")}).(*Term))
		if !ok {
			e.unsupported("csv.Reader with a symbolic FieldsPerRecord")
		}
		if getPath(p.Obj.V, []int{fieldIndex(rt, "TrimLeadingSpace")}).(*Term).IsTrue() {
			for i, c := range cells {
				cells[i] = e.trimLeading(c.(StrV))
			}
		}
		reuse := getPath(p.Obj.V, []int{fieldIndex(rt, "ReuseRecord")}).(*Term).IsTrue()
		var rec SliceV
		if reuse && st.last != nil && st.last.Cap >= len(cells) {
			rec = SliceV{Arr: st.last.Arr, Off: st.last.Off, Len: len(cells), Cap: st.last.Cap}
			for i, c := range cells {
				e.store(Ptr{Obj: rec.Arr, Path: []int{rec.Off + i}}, c)
			}
		} else {
			rec = e.newSlice(cells, nil)
		}
		if reuse {
			st.last = &rec
		}
		if fpr == 0 {
			p.Obj.V = setPath(p.Obj.V, []int{fieldIndex(rt, "FieldsPerRecord")}, e.tf.Int(int64(len(cells))))
		} else if fpr > 0 && len(cells) != fpr {
			return TupleV{rec, e.newError("record on line: wrong number of fields")}
		}
		return TupleV{rec, IfaceV{}}
	}
}

// trimLeading models csv.Reader.TrimLeadingSpace on one (unquoted) cell.
func (e *Exec) trimLeading(s StrV) StrV {
	tf := e.tf
	if cs, ok := s.Const(); ok {
		return chStr(tf, strings.TrimLeft(cs, " \t"))
	}
	if s.IsCh {
		cs := s.Chars
		for len(cs) > 0 && e.decide(tf.Or(tf.Eq(cs[0], tf.Int(' ')), tf.Eq(cs[0], tf.Int('\t')))) {
			cs = cs[1:]
		}
		return StrV{Chars: cs, IsCh: true}
	}
	// no fork: the trimmed text is an uninterpreted function of the cell when it starts with a space
	lead := tf.Or(tf.PrefixOf(tf.Str(" "), s.T), tf.PrefixOf(tf.Str("\t"), s.T))
	return StrV{T: tf.Ite(lead, tf.UF("trimleading", SStr, s.T), s.T)}
}
