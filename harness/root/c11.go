//go:build verif

package gtfs

import (
	"time"

	vr "github.com/jamespfennell/gtfs/internal/verifrt"
)

func init() {
	vr.Register("Harness_C11_services", Harness_C11_services)
}

func hm_DaysIn(y, m int) int {
	if m == 2 {
		if y%4 == 0 && (y%100 != 0 || y%400 == 0) {
			return 29
		}
		return 28
	}
	if m == 4 || m == 6 || m == 9 || m == 11 {
		return 30
	}
	return 31
}

type hDate struct {
	cell    string
	y, m, d int
}

// hDateCell is a symbolic YYYYMMDD cell assumed to be a valid civil date.
func hDateCell(tag string) hDate {
	if vr.Param("SPECIAL", 0) == 1 {
		// concrete civil dates on and around the daylight-saving transitions of the zones under test
		s := vr.OneOf(tag+".special", "20240310", "20241103", "20240309", "20240704", "20240331")
		return hDate{cell: s, y: hAtoi(s[0:4]), m: hAtoi(s[4:6]), d: hAtoi(s[6:8])}
	}
	s := vr.Chars(tag, 8, "digit")
	if vr.Param("CENTURY20", 1) == 1 {
		s = "20" + vr.Chars(tag, 6, "digit")
	}
	dt := hDate{cell: s, y: hAtoi(s[0:4]), m: hAtoi(s[4:6]), d: hAtoi(s[6:8])}
	vr.Assume(vr.And(dt.m >= 1, dt.m <= 12, dt.d >= 1, dt.d <= hm_DaysIn(dt.y, dt.m)))
	return dt
}

// hBadDateCell is a symbolic 20YYMMDD cell that is NOT a civil date.
func hBadDateCell(tag string) string {
	s := "20" + vr.Chars(tag, 6, "digit")
	y, m, d := hAtoi(s[0:4]), hAtoi(s[4:6]), hAtoi(s[6:8])
	vr.Assume(!vr.And(m >= 1, m <= 12, d >= 1, d <= hm_DaysIn(y, m)))
	return s
}

func (d hDate) in(z *time.Location) time.Time {
	return time.Date(d.y, time.Month(d.m), d.d, 0, 0, 0, 0, z)
}
func (d hDate) key() int { return d.y*10000 + d.m*100 + d.d }

// calendar.txt with C rows and calendar_dates.txt with D rows over two
// symbolic service ids (each row picks one), symbolic dates and exception
// types; the agency timezone is valid, fixed-offset-like or unloadable.
func Harness_C11_services() {
	C := vr.Param("C", 1)
	D := vr.Param("D", 2)
	files := hBase()
	tzName := []string{"America/New_York", "Asia/Kolkata", "Not/AZone"}[vr.Param("TZ", 0)]
	zone, err := time.LoadLocation(tzName)
	if err != nil {
		zone = time.UTC
	}
	files["agency.txt"] = hAgencyFile([]string{"ag", "Agency", "u", tzName}, []string{"ag2", "Other", "u", "Europe/Paris"})
	files["routes.txt"] = vr.File{Name: "routes.txt", Header: []string{"route_id", "agency_id", "route_type"}, Rows: [][]string{{"r1", "ag", "1"}}}
	ids := []string{vr.Str("service.a"), vr.Str("service.b")}
	vr.Assume(ids[0] != "" && ids[1] != "" && ids[0] != ids[1])
	pick := func(tag string) int {
		if vr.Bool(tag) {
			return 1
		}
		return 0
	}
	type calRow struct {
		svc        int
		days       [7]bool
		start, end hDate
	}
	var cal []calRow
	var calRows [][]string
	for i := 0; i < C; i++ {
		row := calRow{svc: pick(vr.T("cal.r", i, ".is_b")), start: hDateCell(vr.T("cal.r", i, ".start")), end: hDateCell(vr.T("cal.r", i, ".end"))}
		cells := []string{ids[row.svc]}
		for d := 0; d < 7; d++ {
			c := []string{"1", "0", "0", "1", "0", "1", "1"}[d]
			if d == (i*3+1)%7 {
				c = vr.OneOf(vr.T("cal.r", i, ".day", d), "0", "1")
			}
			row.days[d] = c == "1"
			cells = append(cells, c)
		}
		cells = append(cells, row.start.cell, row.end.cell)
		cal = append(cal, row)
		calRows = append(calRows, cells)
	}
	// one calendar row per service id (ids are unique in a well-formed feed)
	for i := 0; i < C; i++ {
		for j := i + 1; j < C; j++ {
			vr.Assume(cal[i].svc != cal[j].svc)
		}
	}
	type exRow struct {
		svc  int
		date hDate
		typ  string
	}
	var ex []exRow
	var exRows [][]string
	for i := 0; i < D; i++ {
		row := exRow{svc: pick(vr.T("ex.r", i, ".is_b")), date: hDateCell(vr.T("ex.r", i, ".date")), typ: vr.OneOf(vr.T("ex.r", i, ".type"), "1", "2", "3")}
		ex = append(ex, row)
		exRows = append(exRows, []string{ids[row.svc], row.date.cell, row.typ})
	}
	// INVALID: one more row whose date has the YYYYMMDD shape but names no civil date (month 00/13+, day 00,
	// or a day past the end of its month): it is not a valid row, so it contributes nothing.
	// 1: such an exception row (type 1 or 2, either service, first or last); 2: such a calendar row (start or end date)
	switch vr.Param("INVALID", 0) {
	case 1:
		bad := []string{ids[pick("bad.is_b")], hBadDateCell("bad.date"), vr.OneOf("bad.type", "1", "2")}
		if vr.Bool("bad.first") {
			exRows = append([][]string{bad}, exRows...)
		} else {
			exRows = append(exRows, bad)
		}
	case 2:
		// a service id of its own: unique ids stay unique
		bad := []string{"svbad", "1", "1", "1", "1", "1", "1", "1", "20240101", "20241231"}
		if vr.Bool("bad.start") {
			bad[8] = hBadDateCell("bad.date")
		} else {
			bad[9] = hBadDateCell("bad.date")
		}
		vr.Assume(ids[0] != "svbad" && ids[1] != "svbad")
		if vr.Bool("bad.first") {
			calRows = append([][]string{bad}, calRows...)
		} else {
			calRows = append(calRows, bad)
		}
	}
	files["calendar.txt"] = vr.File{Name: "calendar.txt", Header: []string{"service_id", "monday", "tuesday", "wednesday", "thursday", "friday", "saturday", "sunday", "start_date", "end_date"}, Rows: calRows}
	files["calendar_dates.txt"] = vr.File{Name: "calendar_dates.txt", Header: []string{"service_id", "date", "exception_type"}, Rows: exRows}
	files["trips.txt"] = vr.File{Name: "trips.txt", Header: []string{"route_id", "service_id", "trip_id"}, Rows: [][]string{}}
	files["stop_times.txt"] = vr.File{Name: "stop_times.txt", Header: []string{"trip_id", "arrival_time", "departure_time", "stop_id", "stop_sequence"}, Rows: [][]string{}}
	r := hParse(files, ParseStaticOptions{})
	if r == nil {
		return
	}
	for k := range r.Services {
		vr.Assert("C11.invalid_row_inert", r.Services[k].Id != "svbad")
	}
	for s := 0; s < 2; s++ {
		hasCal := -1
		for i := range cal {
			if cal[i].svc == s {
				hasCal = i
			}
		}
		hasEx := false
		for i := range ex {
			if ex[i].svc == s && ex[i].typ != "3" {
				hasEx = true
			}
		}
		n := 0
		var got *Service
		for k := range r.Services {
			if r.Services[k].Id == ids[s] {
				n++
				got = &r.Services[k]
			}
		}
		if hasCal < 0 && !hasEx {
			// a service known only through ignored exception types is not required either way
			anyEx := false
			for i := range ex {
				anyEx = anyEx || ex[i].svc == s
			}
			if !anyEx {
				vr.Assert("C11.one_per_id", n == 0)
			}
			continue
		}
		vr.Assert("C11.one_per_id", n == 1)
		if n != 1 {
			continue
		}
		var days [7]bool
		if hasCal >= 0 {
			days = cal[hasCal].days
		}
		vr.Assert("C11.flags", vr.And(got.Monday == days[0], got.Tuesday == days[1], got.Wednesday == days[2], got.Thursday == days[3],
			got.Friday == days[4], got.Saturday == days[5], got.Sunday == days[6]))
		var added, removed []time.Time
		var lo, hi *hDate
		if hasCal >= 0 {
			lo, hi = &cal[hasCal].start, &cal[hasCal].end
		}
		for i := range ex {
			if ex[i].svc != s {
				continue
			}
			switch ex[i].typ {
			case "1":
				added = append(added, ex[i].date.in(zone))
			case "2":
				removed = append(removed, ex[i].date.in(zone))
			default:
				continue
			}
		}
		vr.Assert("C11.added", vr.DeepEq(got.AddedDates, added))
		vr.Assert("C11.removed", vr.DeepEq(got.RemovedDates, removed))
		_ = lo
		_ = hi
		// start <= every exception date <= end, and the calendar range is covered
		for _, d := range got.AddedDates {
			vr.Assert("C11.range", vr.And(!d.Before(got.StartDate), !got.EndDate.Before(d)))
		}
		for _, d := range got.RemovedDates {
			vr.Assert("C11.range", vr.And(!d.Before(got.StartDate), !got.EndDate.Before(d)))
		}
		if hasCal >= 0 {
			vr.Assert("C11.range.calendar", vr.And(!cal[hasCal].start.in(zone).Before(got.StartDate), !got.EndDate.Before(cal[hasCal].end.in(zone))))
		}
		// start/end are one of the named dates (nothing invented), at local midnight of the first agency's zone
		var cands []bool
		var cande []bool
		if hasCal >= 0 {
			cands = append(cands, vr.DeepEq(got.StartDate, cal[hasCal].start.in(zone)))
			cande = append(cande, vr.DeepEq(got.EndDate, cal[hasCal].end.in(zone)))
		}
		for i := range ex {
			if ex[i].svc == s && ex[i].typ != "3" { // rows of an ignored type are not exception dates of the service
				cands = append(cands, vr.DeepEq(got.StartDate, ex[i].date.in(zone)))
				cande = append(cande, vr.DeepEq(got.EndDate, ex[i].date.in(zone)))
			}
		}
		vr.Assert("C11.midnight_zone", vr.And(vr.Or(cands...), vr.Or(cande...)))
	}
}
