//go:build verif

package journal

import (
	"fmt"
	"time"

	"github.com/jamespfennell/gtfs"
	vr "github.com/jamespfennell/gtfs/internal/verifrt"
)

func init() {
	vr.Register("Harness_C15_history", Harness_C15_history)
}

type hSource struct {
	feeds []*gtfs.Realtime
	i     int
}

func (s *hSource) Next() *gtfs.Realtime {
	if s.i >= len(s.feeds) {
		return nil
	}
	f := s.feeds[s.i]
	s.i++
	return f
}

// reference state of one logical trip (key = start instant + id suffix)
type hRef struct {
	exists, assigned, active bool
	tripID, routeID, vehID   string
	dir                      gtfs.DirectionID
	nUpd                     int
	lastObs                  time.Time
	markedPast               *time.Time
}

// A history of F feeds over N logical trips that appear, disappear and
// reappear, with or without vehicles; the journal is compared with a fold
// over the history written from the property statement.
func Harness_C15_history() {
	F := vr.Param("F", 2)
	N := vr.Param("N", 2)
	M := vr.Param("M", 1)
	const lo, hi = 1000000000, 1999999999
	start := make([]int64, N)
	sfx := make([]string, N)
	for n := 0; n < N; n++ {
		start[n] = int64(vr.Int(vr.T("trip", n, ".start"), lo, hi))
		sfx[n] = "_" + vr.Str(vr.T("trip", n, ".sfx"))
		if vr.Param("SFXNONE", 0) == 1 {
			sfx[n] = "" // a trip id that is exactly its six-character prefix
		}
	}
	for a := 0; a < N; a++ {
		for b := a + 1; b < N; b++ {
			vr.Assume(vr.Or(start[a] != start[b], sfx[a] != sfx[b]))
		}
	}
	ws := vr.Unix(vr.I64("window.start"), time.UTC)
	we := vr.Unix(vr.I64("window.end"), time.UTC)

	ref := make([]hRef, N)
	src := &hSource{}
	// what feed f meant for trip n: 0 present but ignored (unassigned update of an assigned trip), 1 absent, 2 applied
	eff := make([][]int, F)
	times := make([]time.Time, F)
	for f := 0; f < F; f++ {
		tf := vr.Unix(vr.I64(vr.T("feed", f, ".time")), time.UTC)
		times[f] = tf
		eff[f] = make([]int, N)
		feed := &gtfs.Realtime{CreatedAt: tf}
		for n := 0; n < N; n++ {
			r := &ref[n]
			eff[f][n] = 1
			if !vr.Bool(vr.T("feed", f, ".trip", n, ".present")) {
				if r.active && r.markedPast == nil {
					t := tf
					r.markedPast = &t
				}
				r.active = false
				continue
			}
			id := vr.Chars(vr.T("feed", f, ".trip", n, ".origin"), 6, "digit") + sfx[n]
			off := int64(vr.Int(vr.T("feed", f, ".trip", n, ".starttime"), 0, 86400))
			trip := gtfs.Trip{
				ID: gtfs.TripID{
					ID: id, RouteID: vr.Str(vr.T("feed", f, ".trip", n, ".route")),
					DirectionID:  gtfs.DirectionID(vr.Int(vr.T("feed", f, ".trip", n, ".dir"), 0, 2)),
					HasStartTime: true, StartTime: time.Duration(off) * time.Second,
					HasStartDate: true, StartDate: vr.Unix(start[n]-off, time.UTC),
				},
				IsEntityInMessage: true,
			}
			m := M
			if vr.Param("MV", 0) == 1 { // a symbolic number of stops (0..M) per update
				m = hConcretizeJ(vr.Int(vr.T("feed", f, ".trip", n, ".nstops"), 0, M), 0, M)
			}
			for j := 0; j < m; j++ {
				sid := vr.Str(vr.T("feed", f, ".trip", n, ".stop", j))
				trip.StopTimeUpdates = append(trip.StopTimeUpdates, gtfs.StopTimeUpdate{StopID: &sid})
			}
			hasVeh := vr.Bool(vr.T("feed", f, ".trip", n, ".hasvehicle"))
			vid := ""
			if hasVeh {
				vid = vr.Str(vr.T("feed", f, ".trip", n, ".vehicle"))
				trip.Vehicle = &gtfs.Vehicle{ID: &gtfs.VehicleID{ID: vid}}
				if vr.Param("ANON", 0) == 1 && vr.Bool(vr.T("feed", f, ".trip", n, ".vehicle.anonymous")) {
					// a vehicle the feed does not identify is still a vehicle: the trip is assigned, with an empty vehicle id
					vid = ""
					trip.Vehicle = &gtfs.Vehicle{}
				}
			}
			feed.Trips = append(feed.Trips, trip)
			// reference fold
			r.exists = true
			r.active = true
			if r.assigned && !hasVeh {
				eff[f][n] = 0
				continue
			}
			eff[f][n] = 2
			r.assigned = r.assigned || hasVeh
			r.tripID, r.routeID, r.vehID, r.dir = id, trip.ID.RouteID, vid, trip.ID.DirectionID
			r.nUpd++
			r.lastObs = tf
			r.markedPast = nil
		}
		src.feeds = append(src.feeds, feed)
	}

	j := BuildJournal(src, ws, we)

	// expected membership
	var want []int
	for n := 0; n < N; n++ {
		inWindow := vr.And(start[n] >= ws.Unix(), start[n] <= we.Unix())
		if ref[n].exists && ref[n].assigned && inWindow {
			want = append(want, n)
		}
	}
	vr.Assert("C15.membership", len(j.Trips) == len(want))
	if len(j.Trips) != len(want) {
		return
	}
	for i := 0; i+1 < len(j.Trips); i++ {
		vr.Assert("C15.sorted_unique", j.Trips[i].TripUID < j.Trips[i+1].TripUID)
	}
	for _, n := range want {
		r := ref[n]
		uid := fmt.Sprintf("%d%s", start[n], sfx[n])
		var any []bool
		for i := range j.Trips {
			g := &j.Trips[i]
			fields := vr.And(g.TripUID == uid, g.TripID == r.tripID, g.RouteID == r.routeID, g.DirectionID == r.dir,
				g.StartTime.Unix() == start[n], g.VehicleID == r.vehID, g.IsAssigned)
			counters := vr.And(g.NumUpdates == r.nUpd, g.LastObserved.Unix() == r.lastObs.Unix())
			past := vr.DeepEq(g.MarkedPast, r.markedPast)
			stops := true
			if r.markedPast != nil {
				for k := range g.StopTimes {
					stops = vr.And(stops, vr.DeepEq(g.StopTimes[k].MarkedPast != nil, true))
				}
			}
			any = append(any, vr.And(fields, counters, past, stops))
			vr.Assert("C15.fields_last_applied", vr.Implies(g.TripUID == uid, fields))
			vr.Assert("C15.counters", vr.Implies(g.TripUID == uid, counters))
			vr.Assert("C15.marked_past", vr.Implies(g.TripUID == uid, past))
			vr.Assert("C15.stops_marked", vr.Implies(g.TripUID == uid, stops))
			// when a stop entry was marked: at the first feed after its last observation that either lacks the
			// trip or carries an applied update (which, being later than the last observation, no longer reports it)
			distinct := true
			for a := 0; a < F; a++ {
				for b := a + 1; b < F; b++ {
					distinct = vr.And(distinct, times[a].Unix() != times[b].Unix())
				}
			}
			for k := range g.StopTimes {
				st := &g.StopTimes[k]
				for i := 0; i < F; i++ {
					if eff[i][n] != 2 {
						continue
					}
					next := -1
					for k2 := i + 1; k2 < F && next < 0; k2++ {
						if eff[k2][n] != 0 {
							next = k2
						}
					}
					seenAt := vr.And(distinct, g.TripUID == uid, st.LastObserved.Unix() == times[i].Unix())
					if next < 0 {
						vr.Assert("C15.stop_marked_when", vr.Implies(seenAt, st.MarkedPast == nil))
					} else if st.MarkedPast == nil {
						vr.Assert("C15.stop_marked_when", !seenAt)
					} else {
						vr.Assert("C15.stop_marked_when", vr.Implies(seenAt, st.MarkedPast.Unix() == times[next].Unix()))
					}
				}
			}
		}
		vr.Assert("C15.membership", vr.Or(any...))
	}
}

func hConcretizeJ(x, lo, hi int) int {
	for k := lo; k < hi; k++ {
		if x == k {
			return k
		}
	}
	return hi
}
