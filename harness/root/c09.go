//go:build verif

package gtfs

import (
	vr "github.com/jamespfennell/gtfs/internal/verifrt"
)

func init() {
	vr.Register("Harness_C09_inert", Harness_C09_inert)
	vr.Register("Harness_C09_warnings", Harness_C09_warnings)
}

type hC09File struct {
	name    string
	header  []string
	valid   [][]string // two well-formed rows
	invalid [][]string // rejected rows, one per cause
	causes  []string
}

// hC09Files: for every file, two valid rows and one rejected row per rejection cause.
func hC09Files() []hC09File {
	id := vr.Str("junk") // arbitrary text carried by the rejected row
	return []hC09File{
		{"agency.txt", []string{"agency_id", "agency_name", "agency_url", "agency_timezone"},
			[][]string{{"ag", "Agency", "http://a", "America/New_York"}, {"ag2", "Other", "http://b", "UTC"}},
			[][]string{{id, "", "u", "UTC"}, {id, "n", "", "UTC"}, {id, "n", "u", ""}},
			[]string{"blank name", "blank url", "blank timezone"}},
		{"routes.txt", []string{"route_id", "agency_id", "route_type", "route_short_name"},
			[][]string{{"r1", "ag", "1", "A"}, {"r2", "ag", "3", "B"}},
			[][]string{{"", "ag", "1", id}, {"rx", "ag", "", id}, {"rx", "nope", "1", id}, {"rx", "", "1", id}},
			[]string{"blank route_id", "blank route_type", "dangling agency", "no agency id with two agencies"}},
		{"stops.txt", []string{"stop_id", "stop_name", "parent_station"},
			[][]string{{"s1", "Stop 1", ""}, {"s2", "Stop 2", "s1"}},
			[][]string{{"", id, ""}, {"", id, "s1"}},
			[]string{"blank stop_id", "blank stop_id with parent"}},
		{"transfers.txt", []string{"from_stop_id", "to_stop_id", "transfer_type"},
			[][]string{{"s1", "s2", "1"}, {"s2", "s1", "2"}},
			[][]string{{"", "s2", "1"}, {"s1", "", "1"}, {"zz", "s2", "1"}, {"s1", "zz", "1"}, {"s1", "s1", "1"}},
			[]string{"blank from", "blank to", "dangling from", "dangling to", "same stop"}},
		{"calendar.txt", []string{"service_id", "monday", "tuesday", "wednesday", "thursday", "friday", "saturday", "sunday", "start_date", "end_date"},
			[][]string{{"sv1", "1", "1", "1", "1", "1", "0", "0", "20240101", "20241231"}, {"sv2", "0", "0", "0", "0", "0", "1", "1", "20240101", "20240630"}},
			[][]string{{"", "1", "1", "1", "1", "1", "0", "0", "20240101", "20241231"}, {"svx", "1", "1", "1", "1", "1", "0", "0", "2024010", "20241231"},
				{"svx", "1", "1", "1", "1", "1", "0", "0", "20240101", "20241345"}, {"svx", "1", "", "1", "1", "1", "0", "0", "20240101", "20241231"},
				{"svx", "1", "1", "1", "1", "1", "0", "0", "20240101", "20240230"}, {"svx", "1", "1", "1", "1", "1", "0", "0", "20230229", "20241231"}},
			[]string{"blank service_id", "unparsable start_date", "unparsable end_date", "blank weekday", "impossible end day", "impossible start day"}},
		{"calendar_dates.txt", []string{"service_id", "date", "exception_type"},
			[][]string{{"sv1", "20240704", "2"}, {"sv3", "20240705", "1"}},
			[][]string{{"", "20240704", "1"}, {"sv1", "2024070x", "1"}, {"sv1", "20240704", ""}, {"sv1", "20250101", "3"}, {"svnew", "20250101", "7"},
				{"sv1", "20240431", "1"}, {"svghost", "20240230", "1"}},
			[]string{"blank service_id", "unparsable date", "blank exception type", "unknown exception type on a known service", "unknown exception type on a new service",
				"impossible day on a known service", "impossible day on a new service"}},
		{"shapes.txt", []string{"shape_id", "shape_pt_lat", "shape_pt_lon", "shape_pt_sequence"},
			[][]string{{"sh1", "1.5", "2.5", "1"}, {"sh1", "1.6", "2.6", "2"}},
			[][]string{{"", "1", "2", "3"}, {"sh1", "", "2", "3"}, {"sh1", "1", "2", ""}, {"sh1", "abc", "2", "3"}, {"sh1", "1", "abc", "3"}, {"sh1", "1", "2", "x"}},
			[]string{"blank shape_id", "blank lat", "blank sequence", "unparsable lat", "unparsable lon", "unparsable sequence"}},
		{"trips.txt", []string{"route_id", "service_id", "trip_id", "shape_id"},
			[][]string{{"r1", "sv1", "t1", ""}, {"r1", "sv1", "t2", ""}},
			[][]string{{"", "sv1", "tx", ""}, {"r1", "", "tx", ""}, {"r1", "sv1", "", ""}, {"zz", "sv1", "tx", ""}, {"r1", "zz", "tx", ""}},
			[]string{"blank route", "blank service", "blank trip id", "dangling route", "dangling service"}},
		{"frequencies.txt", []string{"trip_id", "start_time", "end_time", "headway_secs"},
			[][]string{{"t1", "06:00:00", "07:00:00", "600"}, {"t1", "07:00:00", "08:00:00", "300"}},
			[][]string{{"", "06:00:00", "07:00:00", "600"}, {"t1", "", "07:00:00", "600"}, {"t1", "06:00:00", "07:00:00", ""}, {"zz", "06:00:00", "07:00:00", "600"},
				{"t1", "06:00:00", "07:00:00", "6x"}, {"t1", "6h", "07:00:00", "600"}, {"t1", "06:00:00", "7h", "600"}},
			[]string{"blank trip", "blank start", "blank headway", "dangling trip", "unparsable headway", "unparsable start", "unparsable end"}},
		{"stop_times.txt", []string{"trip_id", "arrival_time", "departure_time", "stop_id", "stop_sequence"},
			[][]string{{"t1", "08:00:00", "08:00:30", "s1", "1"}, {"t1", "08:10:00", "08:10:30", "s2", "2"}},
			[][]string{{"", "08:20:00", "08:20:00", "s1", "3"}, {"t1", "08:20:00", "08:20:00", "", "3"}, {"t1", "08:20:00", "08:20:00", "s1", ""},
				{"t1", "", "", "s1", "3"}, {"t1", "8h", "8h", "s1", "3"}, {"t1", "08:20:00", "08:20:00", "s1", "x"}, {"t1", "08:20:00", "08:20:00", "zz", "3"},
				{"zz", "08:20:00", "08:20:00", "s1", "3"}, {"zz", "08:20:00", "08:20:00", "zz", "3"}, {"", "", "", "", ""}},
			[]string{"blank trip", "blank stop", "blank sequence", "no times", "unparsable times", "unparsable sequence", "dangling stop", "dangling trip", "dangling trip and stop", "all blank"}},
	}
}

func hC09Feed() map[string]vr.File {
	f := hBase()
	for _, t := range hC09Files() {
		f[t.name] = vr.File{Name: t.name, Header: t.header, Rows: t.valid}
	}
	return f
}

func hSameEntities(a, b *Static) bool {
	return vr.And(vr.DeepEq(a.Agencies, b.Agencies), vr.DeepEq(a.Routes, b.Routes), vr.DeepEq(a.Stops, b.Stops), vr.DeepEq(a.Transfers, b.Transfers),
		vr.DeepEq(a.Services, b.Services), vr.DeepEq(a.Trips, b.Trips), vr.DeepEq(a.Shapes, b.Shapes))
}

// For the file selected by FILE: one rejected row (every rejection cause) is
// inserted before, between or after the valid rows, optionally twice; every
// entity, field and link produced from the other rows must be unchanged.
func Harness_C09_inert() {
	t := hC09Files()[vr.Param("FILE", 0)]
	files := hC09Feed()
	base := hParse(files, ParseStaticOptions{})
	cause := hConcretize(vr.Int("cause", 0, len(t.invalid)-1), 0, len(t.invalid)-1)
	pos := hConcretize(vr.Int("position", 0, 2), 0, 2)
	bad := t.invalid[cause]
	var rows [][]string
	for i := 0; i <= 2; i++ {
		if i == pos {
			rows = append(rows, bad)
			if vr.Bool("twice") {
				rows = append(rows, bad)
			}
		}
		if i < 2 {
			rows = append(rows, t.valid[i])
		}
	}
	files[t.name] = vr.File{Name: t.name, Header: t.header, Rows: rows}
	got := hParse(files, ParseStaticOptions{})
	if base == nil || got == nil {
		return
	}
	vr.Assert("C09.inert", hSameEntities(base, got))
}

// Warnings raised for rejected agency rows name the file, the 1-based row
// number and exactly that row's cells (read after the whole parse).
func Harness_C09_warnings() {
	t := hC09Files()[0]
	files := hC09Feed()
	pos := hConcretize(vr.Int("position", 0, 2), 0, 2)
	bad := []string{vr.Str("bad.id"), "", vr.Str("bad.url"), vr.Str("bad.tz")}
	var rows [][]string
	badRow := 0
	for i := 0; i <= 2; i++ {
		if i == pos {
			rows = append(rows, bad)
			badRow = len(rows)
		}
		if i < 2 {
			rows = append(rows, t.valid[i])
		}
	}
	files[t.name] = vr.File{Name: t.name, Header: t.header, Rows: rows}
	got := hParse(files, ParseStaticOptions{})
	if got == nil {
		return
	}
	vr.Assert("C09.warning.count", len(got.Warnings) == 1)
	if len(got.Warnings) != 1 {
		return
	}
	w := got.Warnings[0]
	vr.Assert("C09.warning.file", string(w.File) == "agency.txt")
	vr.Assert("C09.warning.row", w.RowNumber == badRow)
	vr.Assert("C09.warning.content", vr.DeepEq(w.RowContent, bad))
	vr.Assert("C09.warning.header", vr.DeepEq(w.HeaderContent, t.header))
}
