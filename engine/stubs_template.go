package main

// text/template: the repository's real template text (from its executed init)
// is parsed by text/template/parse and interpreted symbolically (C20).

import (
	"go/token"
	"go/types"
	"text/template/parse"

	"golang.org/x/tools/go/ssa"
)

type tmplObj struct {
	name  string
	text  StrV
	funcs *MapObj
}

func init() {
	stubs["text/template.New"] = func(e *Exec, fr *Frame, fn *ssa.Function, a []Value) Value {
		n, _ := a[0].(StrV).Const()
		o := e.newObj(StructV{}, nil)
		o.Aux = &tmplObj{name: n}
		o.Name = "template:" + n
		return Ptr{Obj: o}
	}
	stubs["(*text/template.Template).Funcs"] = func(e *Exec, fr *Frame, fn *ssa.Function, a []Value) Value {
		p := a[0].(Ptr)
		p.Obj.Aux.(*tmplObj).funcs = a[1].(MapV).M
		return p
	}
	stubs["(*text/template.Template).Parse"] = func(e *Exec, fr *Frame, fn *ssa.Function, a []Value) Value {
		p := a[0].(Ptr)
		p.Obj.Aux.(*tmplObj).text = a[1].(StrV)
		return TupleV{p, IfaceV{}}
	}
	stubs["text/template.Must"] = func(e *Exec, fr *Frame, fn *ssa.Function, a []Value) Value {
		if err := a[1].(IfaceV); err.T != nil {
			e.fail("panic", "panic:explicit", e.siteOf(fr), "template.Must", "")
		}
		return a[0]
	}
}

// ---- interpreter over the real text/template/parse tree

type tmplError struct{ msg string }

type tval struct {
	v Value
	t types.Type
}

type tmplState struct {
	e    *Exec
	fr   *Frame
	tpl  *tmplObj
	vars []map[string]tval
	out  []*Term
}

func (s *tmplState) emit(t *Term) { s.out = append(s.out, t) }

func (s *tmplState) lookupVar(name string) tval {
	for i := len(s.vars) - 1; i >= 0; i-- {
		if v, ok := s.vars[i][name]; ok {
			return v
		}
	}
	s.e.unsupported("template: undefined variable %s", name)
	return tval{}
}

// field resolves .Name on a value: struct field, or niladic method.
func (s *tmplState) field(x tval, name string) tval {
	e := s.e
	t := x.t
	v := x.v
	// auto-dereference pointers
	for {
		pt, ok := t.Underlying().(*types.Pointer)
		if !ok {
			break
		}
		// methods on the pointer type first
		if fn := lookupMethodSafe(e, t, name); fn != nil && token.IsExported(name) {
			r := e.callAt(fn, []Value{v}, nil, s.fr, nil)
			return tval{r, fn.Signature.Results().At(0).Type()}
		}
		p := v.(Ptr)
		if p.Obj == nil {
			e.unsupported("template: nil pointer evaluating .%s", name)
		}
		if p.NilCond != nil && e.decide(p.NilCond) {
			e.unsupported("template: nil pointer evaluating .%s", name)
		}
		v = e.load(Ptr{Obj: p.Obj, Path: p.Path})
		t = pt.Elem()
	}
	if st, ok := t.Underlying().(*types.Struct); ok && !isTimeType(t) {
		for i := 0; i < st.NumFields(); i++ {
			if st.Field(i).Name() == name {
				return tval{v.(StructV).F[i], st.Field(i).Type()}
			}
		}
	}
	if fn := lookupMethodSafe(e, t, name); fn != nil {
		if fn.Signature.Params().Len() != 0 || fn.Signature.Results().Len() < 1 {
			e.unsupported("template: method %s with arguments", name)
		}
		r := e.callAt(fn, []Value{v}, nil, s.fr, nil)
		return tval{r, fn.Signature.Results().At(0).Type()}
	}
	e.unsupported("template: can't evaluate field %s in type %s", name, t)
	return tval{}
}

func (s *tmplState) evalArg(dot tval, n parse.Node) tval {
	switch a := n.(type) {
	case *parse.DotNode:
		return dot
	case *parse.FieldNode:
		x := dot
		for _, id := range a.Ident {
			x = s.field(x, id)
		}
		return x
	case *parse.VariableNode:
		x := s.lookupVar(a.Ident[0])
		for _, id := range a.Ident[1:] {
			x = s.field(x, id)
		}
		return x
	case *parse.StringNode:
		return tval{chStr(s.e.tf, a.Text), types.Typ[types.String]}
	case *parse.PipeNode:
		return s.evalPipe(dot, a)
	case *parse.ChainNode:
		x := s.evalArg(dot, a.Node)
		for _, id := range a.Field {
			x = s.field(x, id)
		}
		return x
	case *parse.NumberNode:
		if a.IsInt {
			return tval{s.e.tf.Int(a.Int64), types.Typ[types.Int]}
		}
	}
	s.e.unsupported("template: argument node %T", n)
	return tval{}
}

func (s *tmplState) evalCommand(dot tval, c *parse.CommandNode) tval {
	e := s.e
	if id, ok := c.Args[0].(*parse.IdentifierNode); ok {
		// the built-in functions the templates may use
		switch id.Ident {
		case "index":
			if len(c.Args) != 3 {
				e.unsupported("template: index with %d arguments", len(c.Args)-1)
			}
			coll := s.evalArg(dot, c.Args[1])
			idx, ok := constInt(s.evalArg(dot, c.Args[2]).v.(*Term))
			sl, isSl := coll.v.(SliceV)
			if !ok || !isSl {
				e.unsupported("template: index on %T", coll.v)
			}
			if idx < 0 || idx >= sl.Len {
				// text/template reports an error: Execute fails
				panic(tmplError{"index out of range"})
			}
			return tval{getPath(sl.Arr.V, []int{sl.Off + idx}), coll.t.Underlying().(*types.Slice).Elem()}
		case "len":
			coll := s.evalArg(dot, c.Args[1])
			if sl, ok := coll.v.(SliceV); ok {
				return tval{e.tf.Int(int64(sl.Len)), types.Typ[types.Int]}
			}
			e.unsupported("template: len of %T", coll.v)
		}
		var fv Value
		if s.tpl.funcs != nil {
			for i, k := range s.tpl.funcs.Keys {
				if ks, ok := k.(StrV).Const(); ok && ks == id.Ident {
					fv = s.tpl.funcs.Vals[i]
				}
			}
		}
		iv, ok := fv.(IfaceV)
		if !ok || iv.T == nil {
			e.unsupported("template: function %q not defined", id.Ident)
		}
		f := iv.V.(FuncV)
		sig := iv.T.Underlying().(*types.Signature)
		var args []Value
		for _, an := range c.Args[1:] {
			args = append(args, s.evalArg(dot, an).v)
		}
		if len(args) != sig.Params().Len() {
			e.unsupported("template: wrong number of args for %s", id.Ident)
		}
		r := e.callFuncV(s.fr, nil, f, args)
		return tval{r, sig.Results().At(0).Type()}
	}
	if len(c.Args) != 1 {
		e.unsupported("template: command with arguments on a non-function")
	}
	return s.evalArg(dot, c.Args[0])
}

func (s *tmplState) evalPipe(dot tval, p *parse.PipeNode) tval {
	if len(p.Cmds) != 1 {
		s.e.unsupported("template: pipelines with several commands")
	}
	return s.evalCommand(dot, p.Cmds[0])
}

// printValue renders a value the way fmt.Fprint does for the kinds the templates print.
func (s *tmplState) printValue(x tval) *Term {
	e := s.e
	switch v := x.v.(type) {
	case StrV:
		return v.Term(e.tf)
	case *Term:
		if v.Sort == SInt {
			if n, ok := x.t.(*types.Named); ok && n.NumMethods() > 0 {
				for i := 0; i < n.NumMethods(); i++ {
					if n.Method(i).Name() == "String" {
						fn := e.P.Prog.LookupMethod(x.t, nil, "String")
						r := e.callAt(fn, []Value{v}, nil, s.fr, nil)
						return r.(StrV).Term(e.tf)
					}
				}
			}
			return e.tf.DecInt(v)
		}
		if v.Sort == SBool {
			return e.tf.Ite(v, e.tf.Str("true"), e.tf.Str("false"))
		}
	}
	e.unsupported("template: printing a value of type %s", x.t)
	return nil
}

func (s *tmplState) walk(dot tval, n parse.Node) {
	e := s.e
	switch x := n.(type) {
	case *parse.ListNode:
		if x == nil {
			return
		}
		for _, c := range x.Nodes {
			s.walk(dot, c)
		}
	case *parse.TextNode:
		s.emit(e.tf.Str(string(x.Text)))
	case *parse.ActionNode:
		v := s.evalPipe(dot, x.Pipe)
		if len(x.Pipe.Decl) > 0 {
			s.vars[len(s.vars)-1][x.Pipe.Decl[0].Ident[0]] = v
			return
		}
		s.emit(s.printValue(v))
	case *parse.RangeNode:
		v := s.evalPipe(dot, x.Pipe)
		if mv, isMap := v.v.(MapV); isMap {
			// text/template visits a map in sorted key order (string keys here)
			mt, _ := v.t.Underlying().(*types.Map)
			if mt == nil || mv.M == nil || len(mv.M.Keys) == 0 {
				s.walk(dot, x.ElseList)
				return
			}
			idx := make([]int, len(mv.M.Keys))
			for i := range idx {
				idx[i] = i
			}
			for i := 1; i < len(idx); i++ {
				for j := i; j > 0; j-- {
					ka, okA := mv.M.Keys[idx[j]].(StrV)
					kb, okB := mv.M.Keys[idx[j-1]].(StrV)
					if !okA || !okB {
						e.unsupported("template: range over a map with non-string keys")
					}
					if !e.decide(e.strLess(ka, kb)) {
						break
					}
					idx[j], idx[j-1] = idx[j-1], idx[j]
				}
			}
			for _, k := range idx {
				el := tval{mv.M.Vals[k], mt.Elem()}
				s.vars = append(s.vars, map[string]tval{})
				switch len(x.Pipe.Decl) {
				case 1:
					s.vars[len(s.vars)-1][x.Pipe.Decl[0].Ident[0]] = el
				case 2:
					s.vars[len(s.vars)-1][x.Pipe.Decl[0].Ident[0]] = tval{mv.M.Keys[k], mt.Key()}
					s.vars[len(s.vars)-1][x.Pipe.Decl[1].Ident[0]] = el
				}
				s.walk(el, x.List)
				s.vars = s.vars[:len(s.vars)-1]
			}
			return
		}
		sl, ok := v.v.(SliceV)
		if !ok {
			e.unsupported("template: range over %T", v.v)
		}
		et := v.t.Underlying().(*types.Slice).Elem()
		if sl.Len == 0 {
			s.walk(dot, x.ElseList)
			return
		}
		for i := 0; i < sl.Len; i++ {
			el := tval{getPath(sl.Arr.V, []int{sl.Off + i}), et}
			s.vars = append(s.vars, map[string]tval{})
			switch len(x.Pipe.Decl) {
			case 1:
				s.vars[len(s.vars)-1][x.Pipe.Decl[0].Ident[0]] = el
			case 2:
				s.vars[len(s.vars)-1][x.Pipe.Decl[0].Ident[0]] = tval{e.tf.Int(int64(i)), types.Typ[types.Int]}
				s.vars[len(s.vars)-1][x.Pipe.Decl[1].Ident[0]] = el
			}
			s.walk(el, x.List)
			s.vars = s.vars[:len(s.vars)-1]
		}
	case *parse.IfNode:
		v := s.evalPipe(dot, x.Pipe)
		truth := false
		switch c := v.v.(type) {
		case *Term:
			if c.Sort == SBool {
				truth = e.decide(c)
			} else {
				truth = e.decide(e.tf.Not(e.tf.Eq(c, e.tf.Int(0))))
			}
		case Ptr:
			truth = !e.decide(nilCondOf(e.tf, c))
		case StrV:
			truth = e.decide(e.tf.Not(e.tf.Eq(c.Len(e.tf), e.tf.Int(0))))
		default:
			e.unsupported("template: truth of %T", v.v)
		}
		if truth {
			s.walk(dot, x.List)
		} else {
			s.walk(dot, x.ElseList)
		}
	default:
		e.unsupported("template: node %T", n)
	}
}

func init() {
	stubs["(*text/template.Template).Execute"] = func(e *Exec, fr *Frame, fn *ssa.Function, a []Value) Value {
		tp := a[0].(Ptr)
		if e.curFoot != nil {
			e.curFoot.read(tp)
		}
		tpl := tp.Obj.Aux.(*tmplObj)
		text, ok := tpl.text.Const()
		if !ok {
			e.unsupported("template with symbolic text")
		}
		funcs := map[string]interface{}{}
		for _, b := range []string{"and", "call", "html", "index", "slice", "js", "len", "not", "or", "print", "printf", "println", "urlquery", "eq", "ge", "gt", "le", "lt", "ne"} {
			funcs[b] = func() {}
		}
		if tpl.funcs != nil {
			for _, k := range tpl.funcs.Keys {
				if ks, ok := k.(StrV).Const(); ok {
					funcs[ks] = func() {}
				}
			}
		}
		trees, err := parse.Parse(tpl.name, text, "", "", funcs)
		if err != nil {
			return e.newError("template: " + err.Error())
		}
		tree := trees[tpl.name]
		if tree == nil {
			e.unsupported("template %s has no tree", tpl.name)
		}
		data := a[2].(IfaceV)
		st := &tmplState{e: e, fr: fr, tpl: tpl, vars: []map[string]tval{{"$": {data.V, data.T}}}}
		var terr *tmplError
		func() {
			defer func() {
				if r := recover(); r != nil {
					if te, ok := r.(tmplError); ok {
						terr = &te
						return
					}
					panic(r)
				}
			}()
			st.walk(tval{data.V, data.T}, tree.Root)
		}()
		if terr != nil {
			return e.newError("template: " + terr.msg)
		}
		// write to the destination buffer
		w := a[1].(IfaceV)
		bp, ok := w.V.(Ptr)
		if !ok || typeKey(w.T) != "*bytes.Buffer" {
			e.unsupported("template.Execute into %s", typeKey(w.T))
		}
		e.writes++
		e.pathAux[e.bufKey(bp)] = append(append([]chunk{}, e.bufGet(bp)...), chunk{t: e.tf.Concat(st.out...)})
		return IfaceV{}
	}
	// SplitCSV splits rendered CSV text at its literal newlines and commas; symbolic
	// segments are atomic (assumed free of CSV metacharacters, or decimal integers).
	intrinsics["SplitCSV"] = func(e *Exec, fr *Frame, fn *ssa.Function, a []Value) Value {
		var text *Term
		switch x := a[0].(type) {
		case chunksV:
			var ts []*Term
			for _, c := range x.cs {
				if c.num {
					e.unsupported("SplitCSV over binary chunks")
				}
				ts = append(ts, c.t)
			}
			text = e.tf.Concat(ts...)
		case StrV:
			text = x.Term(e.tf)
		default:
			e.unsupported("SplitCSV of %T", a[0])
		}
		segs := []*Term{text}
		if text.Op == "concat" {
			segs = text.Args
		}
		var rows []Value
		var row []Value
		var cell []*Term
		endCell := func() {
			row = append(row, StrV{T: e.tf.Concat(cell...)})
			cell = nil
		}
		endRow := func() {
			endCell()
			if len(row) == 1 {
				if c, ok := row[0].(StrV).Const(); ok && c == "" {
					row = nil // encoding/csv skips empty lines
					return
				}
			}
			rows = append(rows, e.newSlice(row, nil))
			row = nil
		}
		for _, sg := range segs {
			if sg.Op != "sconst" {
				cell = append(cell, sg)
				continue
			}
			cur := ""
			for i := 0; i < len(sg.S); i++ {
				switch sg.S[i] {
				case ',':
					cell = append(cell, e.tf.Str(cur))
					cur = ""
					endCell()
				case '\n':
					cell = append(cell, e.tf.Str(cur))
					cur = ""
					endRow()
				case '"', '\r':
					e.unsupported("SplitCSV: quoting in rendered output")
				default:
					cur += string(sg.S[i])
				}
			}
			if cur != "" {
				cell = append(cell, e.tf.Str(cur))
			}
		}
		if len(cell) > 0 || len(row) > 0 {
			endRow()
		}
		return e.newSlice(rows, nil)
	}
}

// lookupMethodSafe is Program.LookupMethod without the panic for a missing method.
func lookupMethodSafe(e *Exec, t types.Type, name string) *ssa.Function {
	sel := e.P.Prog.MethodSets.MethodSet(t).Lookup(nil, name)
	if sel == nil {
		return nil
	}
	return e.P.Prog.MethodValue(sel)
}
