package main

// protobuf: proto.Unmarshal is a deep copy of the harness-built message (the
// wire codec is library code and outside the claim); extensions live in the
// message's extensionFields cell as an engine map keyed by descriptor identity.
// The generated getters are executed from SSA.

import (
	"go/types"
	"strings"

	"golang.org/x/tools/go/ssa"
)

type protoBlob struct {
	msg Ptr
	bad bool
	tag string
}

func (e *Exec) deepCopy(v Value, memo map[*Obj]*Obj, mmemo map[*MapObj]*MapObj) Value {
	switch x := v.(type) {
	case Ptr:
		if x.Obj == nil {
			return x
		}
		return Ptr{Obj: e.copyObj(x.Obj, memo, mmemo), Path: x.Path, NilCond: x.NilCond}
	case SliceV:
		if x.Arr == nil {
			return x
		}
		return SliceV{Arr: e.copyObj(x.Arr, memo, mmemo), Off: x.Off, Len: x.Len, Cap: x.Cap}
	case MapV:
		if x.M == nil {
			return x
		}
		if n, ok := mmemo[x.M]; ok {
			return MapV{M: n}
		}
		e.nextObj++
		n := &MapObj{ID: e.nextObj, KT: x.M.KT, VT: x.M.VT, Epoch: e.epoch}
		mmemo[x.M] = n
		for i := range x.M.Keys {
			n.Keys = append(n.Keys, e.deepCopy(x.M.Keys[i], memo, mmemo))
			n.Vals = append(n.Vals, e.deepCopy(x.M.Vals[i], memo, mmemo))
		}
		return MapV{M: n}
	case StructV:
		f := make([]Value, len(x.F))
		for i := range f {
			f[i] = e.deepCopy(x.F[i], memo, mmemo)
		}
		return StructV{F: f}
	case ArrayV:
		f := make([]Value, len(x.E))
		for i := range f {
			f[i] = e.deepCopy(x.E[i], memo, mmemo)
		}
		return ArrayV{E: f}
	case IfaceV:
		return IfaceV{T: x.T, V: e.deepCopy(x.V, memo, mmemo)}
	case TupleV:
		f := make(TupleV, len(x))
		for i := range f {
			f[i] = e.deepCopy(x[i], memo, mmemo)
		}
		return f
	}
	return v
}

func (e *Exec) copyObj(o *Obj, memo map[*Obj]*Obj, mmemo map[*MapObj]*MapObj) *Obj {
	if o.Aux != nil || strings.HasPrefix(o.Name, "opaque:") {
		return o // shared immutable library objects (locations, descriptors, regexps)
	}
	if n, ok := memo[o]; ok {
		return n
	}
	n := e.newObj(nil, o.Typ)
	memo[o] = n
	n.V = e.deepCopy(o.V, memo, mmemo)
	return n
}

func extFieldIndex(t types.Type) int {
	st, ok := t.Underlying().(*types.Struct)
	if !ok {
		return -1
	}
	for i := 0; i < st.NumFields(); i++ {
		if st.Field(i).Name() == "extensionFields" {
			return i
		}
	}
	return -1
}

// extMap returns the extension map of the message behind a proto.Message interface value.
func (e *Exec) extMap(m Value, create bool) (*MapObj, bool) {
	iv, ok := m.(IfaceV)
	if !ok || iv.T == nil {
		return nil, false
	}
	p, ok := iv.V.(Ptr)
	if !ok || p.Obj == nil {
		return nil, false
	}
	pt, ok := iv.T.Underlying().(*types.Pointer)
	if !ok {
		return nil, false
	}
	idx := extFieldIndex(pt.Elem())
	if idx < 0 {
		return nil, false
	}
	fp := Ptr{Obj: p.Obj, Path: appendPath(p.Path, idx)}
	mv, _ := e.load(fp).(MapV)
	if mv.M == nil {
		if !create {
			return nil, true
		}
		e.nextObj++
		mv = MapV{M: &MapObj{ID: e.nextObj, Epoch: e.epoch}}
		e.store(fp, mv)
	}
	return mv.M, true
}

func extKey(v Value) Value {
	if iv, ok := v.(IfaceV); ok {
		return iv.V
	}
	return v
}

func init() {
	intrinsics["Marshal"] = func(e *Exec, fr *Frame, fn *ssa.Function, a []Value) Value {
		msg := a[0].(Ptr)
		// snapshot: later mutation of the harness message must not reach the bytes
		cp := e.deepCopy(msg, map[*Obj]*Obj{}, map[*MapObj]*MapObj{}).(Ptr)
		arr := e.newObj(ArrayV{}, nil)
		arr.Aux = &protoBlob{msg: cp}
		arr.Name = "bytes:feedmessage"
		return SliceV{Arr: arr, Len: 0, Cap: 0}
	}
	intrinsics["BadBytes"] = func(e *Exec, fr *Frame, fn *ssa.Function, a []Value) Value {
		arr := e.newObj(ArrayV{}, nil)
		arr.Aux = &protoBlob{bad: true}
		arr.Name = "bytes:garbage"
		return SliceV{Arr: arr}
	}
	stubs["google.golang.org/protobuf/proto.Unmarshal"] = func(e *Exec, fr *Frame, fn *ssa.Function, a []Value) Value {
		b := a[0].(SliceV)
		dst := a[1].(IfaceV)
		if b.Arr == nil {
			// empty input is a valid empty message for proto3, but FeedMessage has a required header
			return e.newError("proto: required field missing")
		}
		if e.curFoot != nil {
			e.curFoot.read(Ptr{Obj: b.Arr})
		}
		blob, ok := b.Arr.Aux.(*protoBlob)
		if !ok {
			e.unsupported("proto.Unmarshal of bytes not produced by the harness (wire decoding is outside the claim)")
		}
		if blob.bad {
			return e.newError("proto: cannot parse invalid wire-format data")
		}
		cp := e.deepCopy(blob.msg, map[*Obj]*Obj{}, map[*MapObj]*MapObj{}).(Ptr)
		dp := dst.V.(Ptr)
		e.store(dp, getPath(cp.Obj.V, cp.Path))
		return IfaceV{}
	}
	stubs["google.golang.org/protobuf/proto.HasExtension"] = func(e *Exec, fr *Frame, fn *ssa.Function, a []Value) Value {
		m, ok := e.extMap(a[0], false)
		if !ok || m == nil {
			return e.tf.Bool(false)
		}
		_, found := e.mapGet(m, extKey(a[1]))
		return e.tf.Bool(found)
	}
	stubs["google.golang.org/protobuf/proto.GetExtension"] = func(e *Exec, fr *Frame, fn *ssa.Function, a []Value) Value {
		m, ok := e.extMap(a[0], false)
		if !ok || m == nil {
			return IfaceV{}
		}
		v, found := e.mapGet(m, extKey(a[1]))
		if !found {
			return IfaceV{}
		}
		return v
	}
	stubs["google.golang.org/protobuf/proto.SetExtension"] = func(e *Exec, fr *Frame, fn *ssa.Function, a []Value) Value {
		m, ok := e.extMap(a[0], true)
		if !ok {
			e.fail("panic", "panic:explicit", e.siteOf(fr), "proto.SetExtension on an invalid message", "")
		}
		e.mapSet(m, extKey(a[1]), a[2])
		return nil
	}
}
