package main

// Symbolic executor over go/ssa: concrete heap and control structure,
// symbolic scalar leaves, path exploration by re-execution with a recorded
// decision trace.

import (
	"fmt"
	"go/constant"
	"go/token"
	"go/types"
	"math"
	"math/big"
	"os"
	"strings"
	"sync/atomic"
	"time"

	"golang.org/x/tools/go/ssa"
)

var abortAll atomic.Bool

var progress = os.Getenv("VERIF_PROGRESS") != ""

type pathEnd struct {
	kind string // done | infeasible | failed | unsupported | unwind | hang
	msg  string
}

type traceEnt struct {
	kind        byte // 'd' decision, 'f' forced, 'a' assume
	val         bool
	open        bool
	needAssert  bool
	depthBefore int
	lit         *Term
}

type Frame struct {
	fn     *ssa.Function
	env    map[ssa.Value]Value
	free   []Value
	visits map[*ssa.BasicBlock]int
	snaps  map[*ssa.BasicBlock][]loopSnap
	caller *Frame
	site   ssa.Instruction
	defers []func()
}

type loopSnap struct {
	writes int
	decs   int
	phis   []Value
}

type Failure struct {
	Harness  string
	AssertID string
	Kind     string // assert | panic | hang | conflict
	Site     string
	Msg      string
	Model    map[string]string
	Pos      string
}

type Exec struct {
	P       *Program
	tf      *TF
	sol     *Solver
	harness string
	cfg     map[string]string
	params  map[string]int

	// per path
	globals         map[*ssa.Global]*Obj
	nextObj         int
	trace           []traceEnt
	cursor          int
	steps           int
	writes          int
	decs            int
	frame           *Frame
	inputs          []*Term // symbolic inputs created on this path, in order
	inputSeen       map[string]bool
	epoch           int
	locs            map[string]*Obj
	opaque          map[string]*Obj
	initDone        bool
	mapOrder        string
	mapPerms        map[string][]int
	observes        []obsRec
	footprints      map[string]*footprint
	curFoot         *footprint
	pathAux         map[string]interface{}
	assertedVars    map[string]bool
	known           map[int]bool
	mergeDepth      int
	nDecisions      int
	streamQueries   int
	streamFallbacks int
	mergeBase       int
	mergeDirty      bool
	noMerge         bool
	varCache        map[int][]string

	// accumulated over paths
	Paths        int
	Steps        int
	Obligations  int
	Discharged   int
	Inconclusive []string
	Failures     []Failure
	failSeen     map[string]int
	Reached      map[string]map[string]string // assert id -> witness model
	Unsupported  map[string]int
	Ends         map[string]int
	FuncsSeen    map[string]bool
	StubsSeen    map[string]bool
	Samples      []map[string]interface{}
	MaxDecisions int
	Bound        int
	MaxPaths     int
	Truncated    bool
	StoppedEarly bool
	Deadline     time.Time
	FailGrace    time.Duration // exploration continues this long after the first recorded failure (0 = to the end)
	firstFail    time.Time
	Merged       map[string]int
	Unmerged     map[string]int
}

type obsRec struct {
	id string
	v  Value
}

func NewExec(p *Program, harness string, timeoutMs int) (*Exec, error) {
	e := &Exec{P: p, tf: NewTF(), harness: harness, failSeen: map[string]int{}, Reached: map[string]map[string]string{},
		Merged: map[string]int{}, Unmerged: map[string]int{}, Unsupported: map[string]int{}, Ends: map[string]int{}, FuncsSeen: map[string]bool{}, StubsSeen: map[string]bool{}, Bound: 400, MaxPaths: 200000,
		cfg: map[string]string{}}
	logp := ""
	if os.Getenv("VERIF_SMTLOG") != "" {
		logp = os.Getenv("VERIF_SMTLOG") + "." + harness + ".smt2"
	}
	s, err := NewSolver(e.tf, timeoutMs, logp)
	if err != nil {
		return nil, err
	}
	e.sol = s
	return e, nil
}

func (e *Exec) end(kind, msg string) { panic(pathEnd{kind, msg}) }

func (e *Exec) unsupported(format string, a ...interface{}) {
	msg := fmt.Sprintf(format, a...)
	if e.mergeDepth > 0 {
		e.end("unsupported", msg)
	}
	e.Unsupported[msg]++
	e.end("unsupported", msg)
}

// ---------- exploration driver

func (e *Exec) Explore(fn *ssa.Function) {
	for {
		e.resetPath()
		kind := e.runPath(fn)
		e.Paths++
		e.Ends[kind]++
		if progress && (e.Paths%50 == 0 || e.Paths < 5) {
			fmt.Fprintf(os.Stderr, "[%s] paths=%d queries=%d solver=%.1fs ends=%v fails=%d\n", e.harness, e.Paths, e.sol.Queries, e.sol.Time.Seconds(), e.Ends, len(e.Failures))
		}
		e.Steps += e.steps
		if len(e.trace) > e.MaxDecisions {
			e.MaxDecisions = len(e.trace)
		}
		i := len(e.trace) - 1
		for i >= 0 && !e.trace[i].open {
			i--
		}
		if i < 0 {
			return
		}
		if e.Paths >= e.MaxPaths {
			e.Truncated = true
			return
		}
		if e.cfg["stop_on_fail"] == "1" && len(e.Failures) > 0 {
			abortAll.Store(true)
			return
		}
		if e.cfg["stop_on_fail"] == "1" && abortAll.Load() {
			e.StoppedEarly = true
			return
		}
		if e.Deadline != (time.Time{}) && time.Now().After(e.Deadline) {
			e.Truncated = true
			return
		}
		if e.FailGrace > 0 && len(e.Failures) > 0 && time.Since(e.firstFail) > e.FailGrace {
			e.Truncated = true
			return
		}
		e.trace = e.trace[:i+1]
		ent := &e.trace[i]
		e.sol.PopTo(ent.depthBefore)
		ent.val = false
		ent.open = false
		ent.needAssert = true
	}
}

func (e *Exec) resetPath() {
	e.globals = map[*ssa.Global]*Obj{}
	e.nextObj = 0
	e.cursor = 0
	e.steps = 0
	e.nDecisions = 0
	e.writes = 0
	e.decs = 0
	e.frame = nil
	e.inputs = nil
	e.inputSeen = map[string]bool{}
	e.epoch = 0
	e.locs = map[string]*Obj{}
	e.opaque = map[string]*Obj{}
	e.initDone = false
	e.observes = nil
	e.mapOrder = ""
	e.mapPerms = map[string][]int{}
	e.footprints = map[string]*footprint{}
	e.curFoot = nil
	e.pathAux = map[string]interface{}{}
	e.assertedVars = map[string]bool{}
	e.known = map[int]bool{}
	if e.varCache == nil {
		e.varCache = map[int][]string{}
	}
}

func (e *Exec) runPath(fn *ssa.Function) (kind string) {
	defer func() {
		if r := recover(); r != nil {
			pe, ok := r.(pathEnd)
			if !ok {
				panic(r)
			}
			kind = pe.kind
			if pe.kind == "unsupported" || pe.kind == "unwind" {
				e.Inconclusive = append(e.Inconclusive, fmt.Sprintf("%s: path ended %s: %s", e.harness, pe.kind, pe.msg))
			}
		}
	}()
	e.runInits()
	e.call(fn, nil, nil, nil)
	return "done"
}

var initPkgs = []string{repoMod, repoMod + "/extensions/nycttrips", repoMod + "/extensions/nyctalerts", repoMod + "/journal",
	repoMod + "/csv", repoMod + "/warnings", repoMod + "/extensions", repoMod + "/constants", repoMod + "/internal/verifrt", repoMod + "/internal/verifh"}

func (e *Exec) runInits() {
	for _, pp := range initPkgs {
		sp := e.P.Pkgs[pp]
		if sp == nil {
			continue
		}
		if f := sp.Func("init"); f != nil {
			e.call(f, nil, nil, nil)
		}
	}
	e.initDone = true
	e.epoch = 1
}

// decide returns the truth value of c on this path, forking when both are feasible.
func (e *Exec) decide(c *Term) bool {
	if c.Op == "bool" {
		return c.B
	}
	if v, ok := e.known[c.id]; ok {
		return v
	}
	r := e.decide1(c)
	e.learn(c, r)
	return r
}

// learn records the truth value of c (and of its obvious sub-literals) on this path.
func (e *Exec) learn(c *Term, v bool) {
	if _, ok := e.known[c.id]; ok {
		return
	}
	e.known[c.id] = v
	switch c.Op {
	case "not":
		e.learn(c.Args[0], !v)
	case "and":
		if v {
			for _, a := range c.Args {
				e.learn(a, true)
			}
		}
	case "or":
		if !v {
			for _, a := range c.Args {
				e.learn(a, false)
			}
		}
	}
	if c.Op != "not" {
		n := e.tf.Not(c)
		if _, ok := e.known[n.id]; !ok {
			e.known[n.id] = !v
		}
	}
}

// lemmas returns theory-valid consequences of (c == val) that help the string
// solver (totality and asymmetry of the lexicographic order).
func (e *Exec) lemmas(c *Term, val bool) []*Term {
	if c.Op == "not" {
		return e.lemmas(c.Args[0], !val)
	}
	if c.Op != "str.<" {
		return nil
	}
	a, b := c.Args[0], c.Args[1]
	rev := e.tf.mk(&Term{Op: "str.<", Sort: SBool, Args: []*Term{b, a}})
	eq := e.tf.Eq(a, b)
	if val {
		return []*Term{e.tf.Not(rev), e.tf.Not(eq)}
	}
	return []*Term{e.tf.Or(eq, rev)}
}

func (e *Exec) assertLit(c *Term, val bool) {
	if val {
		e.sol.Assert(c)
	} else {
		e.sol.Assert(e.tf.Not(c))
	}
	for _, l := range e.lemmas(c, val) {
		e.sol.Assert(l)
	}
}

func (e *Exec) decide1(c *Term) bool {
	e.decs++
	if e.mergeDepth > 0 {
		if e.cursor < len(e.trace) {
			ent := &e.trace[e.cursor]
			e.cursor++
			return ent.val
		}
		e.trace = append(e.trace, traceEnt{kind: 'd', val: true, open: true, lit: c})
		e.cursor++
		return true
	}
	free := e.freeBoolLit(c)
	e.noteVars(c)
	if e.cursor < len(e.trace) {
		ent := &e.trace[e.cursor]
		e.cursor++
		if ent.kind == 'd' {
			e.nDecisions++
		}
		if ent.needAssert {
			ent.needAssert = false
			ent.depthBefore = e.sol.Depth()
			e.sol.Push()
			e.assertLit(c, ent.val)
		}
		return ent.val
	}
	sT, sF := Sat, Sat
	if !free {
		sT = e.sol.CheckWith(c)
		sF = e.sol.CheckWith(e.tf.Not(c))
	}
	ent := traceEnt{depthBefore: e.sol.Depth(), lit: c}
	switch {
	case sT == Unsat && sF == Unsat:
		e.end("infeasible", "both branches infeasible")
	case sT == Unsat:
		ent.kind, ent.val = 'f', false
		if sF == Unknown || len(e.lemmas(c, false)) > 0 {
			e.sol.Push()
			e.assertLit(c, false)
		}
	case sF == Unsat:
		ent.kind, ent.val = 'f', true
		if sT == Unknown || len(e.lemmas(c, true)) > 0 {
			e.sol.Push()
			e.assertLit(c, true)
		}
	default:
		ent.kind, ent.val, ent.open = 'd', true, true
		// a harness spec may fix the outcome of the first decisions ("prefix" of T/F) so that
		// one exploration is partitioned over several workers; all prefixes together cover everything
		if pf := e.cfg["prefix"]; e.nDecisions < len(pf) {
			ent.val = pf[e.nDecisions] == 'T'
			ent.open = false
		}
		e.sol.Push()
		e.assertLit(c, ent.val)
	}
	if ent.kind == 'd' {
		e.nDecisions++
	}
	e.trace = append(e.trace, ent)
	e.cursor++
	return ent.val
}

// assume restricts the path to c.
func (e *Exec) assume(c *Term) {
	if c.IsTrue() {
		return
	}
	if e.mergeDepth > 0 {
		e.mergeDirty = true
		e.end("unsupported", "assumption inside merged call")
	}
	if c.IsFalse() {
		e.end("infeasible", "assume(false)")
	}
	if v, ok := e.known[c.id]; ok && v {
		return
	}
	e.learn(c, true)
	e.noteVars(c)
	if e.cursor < len(e.trace) {
		ent := &e.trace[e.cursor]
		e.cursor++
		if !ent.val {
			e.end("infeasible", "assume infeasible")
		}
		return
	}
	ent := traceEnt{kind: 'a', val: true, depthBefore: e.sol.Depth(), lit: c}
	e.sol.Push()
	e.sol.Assert(c)
	if e.sol.Check() == Unsat {
		e.sol.PopTo(ent.depthBefore)
		ent.val = false
		e.trace = append(e.trace, ent)
		e.cursor++
		e.end("infeasible", "assume infeasible")
	}
	e.trace = append(e.trace, ent)
	e.cursor++
}

// assumeFresh adds a constraint that only bounds a freshly created input
// (always satisfiable together with the path): no solver check is needed.
func (e *Exec) assumeFresh(c *Term) {
	if c.IsTrue() {
		return
	}
	if e.mergeDepth > 0 {
		e.mergeDirty = true
		e.end("unsupported", "input inside merged call")
	}
	e.noteVars(c)
	if e.cursor < len(e.trace) {
		e.cursor++
		return
	}
	ent := traceEnt{kind: 'a', val: true, depthBefore: e.sol.Depth(), lit: c}
	e.sol.Push()
	e.sol.Assert(c)
	e.trace = append(e.trace, ent)
	e.cursor++
}

func (e *Exec) noteVars(c *Term) {
	vs, ok := e.varCache[c.id]
	if !ok {
		m := map[string]*Term{}
		c.Vars(m)
		for k := range m {
			vs = append(vs, k)
		}
		e.varCache[c.id] = vs
	}
	for _, v := range vs {
		e.assertedVars[v] = true
	}
}

// freeBoolLit reports whether c is a (negated) boolean input not yet constrained on this path.
func (e *Exec) freeBoolLit(c *Term) bool {
	if c.Op == "not" {
		c = c.Args[0]
	}
	return c.Op == "var" && c.Sort == SBool && !e.assertedVars[c.S]
}

// ---------- failures and obligations

func (e *Exec) siteOf(fr *Frame) string {
	for f := fr; f != nil; f = f.caller {
		if f.fn.Pkg != nil && !isHarnessFunc(f.fn) {
			return shortFn(f.fn)
		}
	}
	if fr != nil {
		return shortFn(fr.fn)
	}
	return "?"
}

func shortFn(fn *ssa.Function) string {
	s := fn.String()
	s = strings.ReplaceAll(s, repoMod+"/extensions/", "")
	s = strings.ReplaceAll(s, repoMod+"/", "")
	s = strings.ReplaceAll(s, repoMod, "gtfs")
	return s
}

func isHarnessFunc(fn *ssa.Function) bool {
	for f := fn; f != nil; f = f.Parent() {
		if strings.HasPrefix(f.Name(), "Harness_") || strings.HasPrefix(f.Name(), "h_") {
			return true
		}
	}
	if fn.Pkg != nil {
		pp := fn.Pkg.Pkg.Path()
		if strings.HasSuffix(pp, "/internal/verifrt") || strings.HasSuffix(pp, "/internal/verifh") {
			return true
		}
	}
	return false
}

func (e *Exec) posOf(fr *Frame, ins ssa.Instruction) string {
	if ins != nil && ins.Pos() != token.NoPos {
		return e.P.Prog.Fset.Position(ins.Pos()).String()
	}
	if fr != nil && fr.site != nil && fr.site.Pos() != token.NoPos {
		return e.P.Prog.Fset.Position(fr.site.Pos()).String()
	}
	return ""
}

// fail records a violation on the current path (with a model) and ends the path.
func (e *Exec) fail(kind, assertID, site, msg, pos string) {
	if e.mergeDepth > 0 {
		e.end("failed", "failure inside merged call")
	}
	e.recordFailure(kind, assertID, site, msg, pos, nil)
	e.end("failed", kind+": "+msg)
}

func (e *Exec) recordFailure(kind, assertID, site, msg, pos string, extra *Term) {
	key := kind + "|" + assertID + "|" + site
	e.failSeen[key]++
	if e.failSeen[key] > 3 {
		return
	}
	v, m := e.model(extra)
	if v != Sat {
		e.Inconclusive = append(e.Inconclusive, fmt.Sprintf("%s: no model for %s %s at %s (%v)", e.harness, kind, assertID, site, v))
		return
	}
	if len(e.Failures) == 0 {
		e.firstFail = time.Now()
	}
	e.Failures = append(e.Failures, Failure{Harness: e.harness, AssertID: assertID, Kind: kind, Site: site, Msg: msg, Model: e.cleanModel(m), Pos: pos})
}

// model asks for a model of the path (plus extra), preferring one whose string
// inputs stay inside the printable harness alphabet.
func (e *Exec) model(extra *Term) (Verdict, map[string]string) {
	var xs []*Term
	if extra != nil {
		xs = append(xs, extra)
	}
	var alpha []*Term
	for _, in := range e.inputs {
		if in.Sort == SStr {
			alpha = append(alpha, e.tf.InRe(in, strAlphabet))
		}
	}
	if len(alpha) > 0 {
		v, m := e.sol.ModelWith(e.inputs, append(append([]*Term{}, xs...), alpha...)...)
		if v == Sat {
			return v, m
		}
	}
	return e.sol.ModelWith(e.inputs, xs...)
}

func (e *Exec) cleanModel(m map[string]string) map[string]string {
	out := map[string]string{}
	for _, v := range e.inputs {
		raw, ok := m[v.S]
		if !ok {
			continue
		}
		switch v.Sort {
		case SInt:
			out[v.S] = decodeSMTInt(raw)
		case SBool:
			out[v.S] = raw
		case SStr:
			out[v.S] = decodeSMTString(raw)
		default:
			out[v.S] = raw
		}
	}
	for k, v := range e.mapPerms {
		out["maporder:"+k] = fmt.Sprint(v)
	}
	for k, v := range e.cfg {
		if strings.HasPrefix(k, "pin.") {
			out[strings.TrimPrefix(k, "pin.")] = v
		}
	}
	return out
}

// goPanic handles a (possible) run-time panic of the program under test.
func (e *Exec) goPanic(fr *Frame, ins ssa.Instruction, cond *Term, what string) {
	if cond.IsFalse() {
		return
	}
	if e.decide(cond) {
		e.fail("panic", "panic:"+what, e.siteOf(fr), what+" in "+shortFn(fr.fn), e.posOf(fr, ins))
	}
}

func (e *Exec) obligation(id string, c *Term, fr *Frame) {
	e.Obligations++
	if _, ok := e.Reached[id]; !ok {
		v, m := e.model(nil)
		if v == Sat {
			e.Reached[id] = e.cleanModel(m)
		}
	}
	if v, ok := e.known[c.id]; c.IsTrue() || (ok && v) {
		e.Discharged++
		return
	}
	nc := e.tf.Not(c)
	v := Sat
	if !c.IsFalse() {
		v = e.sol.CheckWith(nc)
	}
	switch v {
	case Unsat:
		e.Discharged++
		if len(e.Samples) < 3 {
			e.Samples = append(e.Samples, map[string]interface{}{"harness": e.harness, "assert": id, "verdict": "unsat", "negated_property": truncStr(nc.SMT(), 600), "path_decisions": len(e.trace)})
		}
	case Sat:
		msg := "assertion " + id + " can fail"
		if c, ok := e.pathAux["conflict"].(string); ok {
			msg += ": " + c
		}
		e.recordFailure("assert", id, e.siteOf(fr), msg, "", nc)
	default:
		e.Inconclusive = append(e.Inconclusive, fmt.Sprintf("%s: %s: solver answered unknown", e.harness, id))
	}
	e.assume(c)
}

func truncStr(s string, n int) string {
	if len(s) > n {
		return s[:n] + "..."
	}
	return s
}

// ---------- objects

func (e *Exec) newObj(v Value, t types.Type) *Obj {
	e.nextObj++
	return &Obj{ID: e.nextObj, V: v, Typ: t, Epoch: e.epoch}
}

func (e *Exec) global(g *ssa.Global) *Obj {
	if o, ok := e.globals[g]; ok {
		return o
	}
	et := g.Type().(*types.Pointer).Elem()
	o := e.newObj(e.zero(et), et)
	o.Name = g.String()
	o.Epoch = 0
	pp := ""
	if g.Pkg != nil {
		pp = g.Pkg.Pkg.Path()
	}
	if s, ok := e.P.Embeds[pp+"."+g.Name()]; ok {
		o.V = chStr(e.tf, s)
	} else if !isInitPkg(pp) {
		o.V = e.foreignGlobal(g, et)
	}
	e.globals[g] = o
	return o
}

func isInitPkg(pp string) bool {
	for _, p := range initPkgs {
		if p == pp {
			return true
		}
	}
	return false
}

// foreignGlobal materialises a package-level variable of a package whose init
// is not executed (standard library, protobuf).
func (e *Exec) foreignGlobal(g *ssa.Global, et types.Type) Value {
	name := g.String()
	if v, ok := foreignGlobalValue(e, name, et); ok {
		return v
	}
	switch u := et.Underlying().(type) {
	case *types.Pointer:
		o := e.newObj(e.zeroShallow(u.Elem()), u.Elem())
		o.Name = "opaque:" + name
		o.Epoch = 0
		return Ptr{Obj: o}
	case *types.Interface:
		o := e.newObj(StructV{}, nil)
		o.Name = "opaque:" + name
		o.Epoch = 0
		return IfaceV{T: e.opaqueType(name), V: Ptr{Obj: o}}
	}
	return e.zero(et)
}

var opaqueTypes = map[string]*types.Named{}

func (e *Exec) opaqueType(name string) types.Type { return opaqueTypeOf(name) }

func opaqueTypeOf(name string) types.Type {
	opaqueMu.Lock()
	defer opaqueMu.Unlock()
	if t, ok := opaqueTypes[name]; ok {
		return t
	}
	t := types.NewNamed(types.NewTypeName(token.NoPos, nil, "$"+name, nil), types.NewStruct(nil, nil), nil)
	opaqueTypes[name] = t
	return t
}

func (e *Exec) zeroShallow(t types.Type) Value {
	defer func() { recover() }()
	return e.zero(t)
}

func (e *Exec) zero(t types.Type) Value {
	if isTimeType(t) {
		return TimeV{Sec: e.tf.Int(-62135596800)}
	}
	switch u := t.Underlying().(type) {
	case *types.Basic:
		switch {
		case u.Info()&types.IsBoolean != 0:
			return e.tf.Bool(false)
		case u.Info()&types.IsString != 0:
			return chStr(e.tf, "")
		case u.Info()&types.IsNumeric != 0:
			return e.tf.Int(0)
		case u.Kind() == types.UnsafePointer:
			return Ptr{}
		case u.Kind() == types.UntypedNil:
			return nil
		}
	case *types.Pointer:
		return Ptr{}
	case *types.Slice:
		return SliceV{}
	case *types.Map:
		return MapV{}
	case *types.Signature:
		return FuncV{}
	case *types.Interface:
		return IfaceV{}
	case *types.Chan:
		return Ptr{}
	case *types.Struct:
		fs := make([]Value, u.NumFields())
		for i := range fs {
			fs[i] = e.zero(u.Field(i).Type())
		}
		return StructV{F: fs}
	case *types.Array:
		es := make([]Value, u.Len())
		if u.Len() > 0 {
			z := e.zero(u.Elem())
			for i := range es {
				es[i] = z
			}
		}
		return ArrayV{E: es}
	case *types.Tuple:
		tv := make(TupleV, u.Len())
		for i := range tv {
			tv[i] = e.zero(u.At(i).Type())
		}
		return tv
	}
	e.unsupported("zero value of %s", t)
	return nil
}

func intInfo(t types.Type) (bits int, signed bool, ok bool) {
	b, isB := t.Underlying().(*types.Basic)
	if !isB {
		return 0, false, false
	}
	switch b.Kind() {
	case types.Int, types.Int64, types.UntypedInt:
		return 64, true, true
	case types.Int32, types.UntypedRune:
		return 32, true, true
	case types.Int16:
		return 16, true, true
	case types.Int8:
		return 8, true, true
	case types.Uint, types.Uint64, types.Uintptr:
		return 64, false, true
	case types.Uint32:
		return 32, false, true
	case types.Uint16:
		return 16, false, true
	case types.Uint8:
		return 8, false, true
	}
	return 0, false, false
}

func isFloat(t types.Type) bool {
	b, ok := t.Underlying().(*types.Basic)
	return ok && b.Info()&types.IsFloat != 0
}
func isString(t types.Type) bool {
	b, ok := t.Underlying().(*types.Basic)
	return ok && b.Info()&types.IsString != 0
}

func (e *Exec) constValue(c *ssa.Const) Value {
	t := c.Type()
	if c.Value == nil {
		return e.zero(t)
	}
	switch c.Value.Kind() {
	case constant.Bool:
		return e.tf.Bool(constant.BoolVal(c.Value))
	case constant.String:
		return chStr(e.tf, constant.StringVal(c.Value))
	case constant.Int:
		if isFloat(t) {
			f, _ := constant.Float64Val(c.Value)
			return e.floatBits(f, t)
		}
		bi, _ := new(big.Int).SetString(c.Value.ExactString(), 10)
		return e.tf.IntB(bi)
	case constant.Float:
		f, _ := constant.Float64Val(c.Value)
		if isFloat(t) {
			return e.floatBits(f, t)
		}
		return e.tf.Int(int64(f))
	}
	e.unsupported("constant %s", c)
	return nil
}

func (e *Exec) floatBits(f float64, t types.Type) Value {
	if b, ok := t.Underlying().(*types.Basic); ok && b.Kind() == types.Float32 {
		return e.tf.IntB(new(big.Int).SetUint64(uint64(math.Float32bits(float32(f)))))
	}
	return e.tf.IntB(new(big.Int).SetUint64(math.Float64bits(f)))
}

// ---------- loads and stores

func (e *Exec) derefCheck(fr *Frame, ins ssa.Instruction, p Ptr) Ptr {
	if p.Obj == nil {
		e.fail("panic", "panic:nil-deref", e.siteOf(fr), "nil pointer dereference in "+shortFn(fr.fn), e.posOf(fr, ins))
	}
	if p.NilCond != nil {
		e.goPanic(fr, ins, p.NilCond, "nil-deref")
		p.NilCond = nil
	}
	return p
}

func (e *Exec) load(p Ptr) Value {
	if e.curFoot != nil {
		e.curFoot.read(p)
	}
	return getPath(p.Obj.V, p.Path)
}

func (e *Exec) store(p Ptr, v Value) {
	if e.curFoot != nil {
		e.curFoot.write(p, e)
	}
	e.writes++
	if e.mergeDepth > 0 && p.Obj.ID <= e.mergeBase {
		e.mergeDirty = true
		e.end("unsupported", "heap write inside merged call")
	}
	p.Obj.V = setPath(p.Obj.V, p.Path, v)
}

// ---------- calls

func (e *Exec) call(fn *ssa.Function, args []Value, free []Value, callerFrame *Frame) Value {
	return e.callAt(fn, args, free, callerFrame, nil)
}

func (e *Exec) callAt(fn *ssa.Function, args []Value, free []Value, callerFrame *Frame, site ssa.Instruction) Value {
	name := fn.String()
	if o := fn.Origin(); o != nil {
		name = o.String()
	}
	if st, ok := stubs[name]; ok {
		e.StubsSeen[name] = true
		return st(e, callerFrame, fn, args)
	}
	{
		o := fn
		if fo := fn.Origin(); fo != nil {
			o = fo
		}
		if o.Pkg != nil && strings.HasSuffix(o.Pkg.Pkg.Path(), "/internal/verifrt") {
			if in, ok := intrinsics[o.Name()]; ok {
				return in(e, callerFrame, fn, args)
			}
		}
	}
	if fn.Blocks == nil {
		e.unsupported("call to body-less function %s", name)
	}
	if fn.Name() == "init" && fn.Pkg != nil && fn.Parent() == nil && fn.Signature.Recv() == nil {
		// package initialiser: only the selected packages, once
		if !isInitPkg(fn.Pkg.Pkg.Path()) {
			return nil
		}
		g := fn.Pkg.Var("init$guard")
		if g != nil {
			o := e.global(g)
			if t, ok := o.V.(*Term); ok && t.IsTrue() {
				return nil
			}
		}
	}
	if !e.interpretable(fn) {
		e.unsupported("call to library function %s (no summary)", name)
	}
	if !isHarnessFunc(fn) {
		e.FuncsSeen[name] = true
	}
	if e.mergeable(fn) {
		if v, ok := e.tryMerge(fn, args, free, callerFrame, site); ok {
			return v
		}
	}
	return e.callBody(fn, args, free, callerFrame, site)
}

func (e *Exec) callBody(fn *ssa.Function, args []Value, free []Value, callerFrame *Frame, site ssa.Instruction) Value {
	name := fn.String()
	fr := &Frame{fn: fn, env: map[ssa.Value]Value{}, free: free, visits: map[*ssa.BasicBlock]int{}, caller: callerFrame, site: site}
	for i, p := range fn.Params {
		fr.env[p] = args[i]
	}
	depth := 0
	for f := callerFrame; f != nil; f = f.caller {
		depth++
	}
	if depth > 200 {
		e.end("unwind", "call depth exceeded in "+name)
	}
	return e.run(fr)
}

func (e *Exec) interpretable(fn *ssa.Function) bool {
	if fn.Pkg == nil {
		// synthetic wrappers / instantiations: judge by origin or receiver
		if o := fn.Origin(); o != nil && o.Pkg != nil {
			return strings.HasPrefix(o.Pkg.Pkg.Path(), repoMod) || interpretablePkgs[o.Pkg.Pkg.Path()]
		}
		if fn.Synthetic != "" {
			return true
		}
		return false
	}
	pp := fn.Pkg.Pkg.Path()
	return strings.HasPrefix(pp, repoMod) || interpretablePkgs[pp]
}

var interpretablePkgs = map[string]bool{}

func (e *Exec) run(fr *Frame) Value {
	blk := fr.fn.Blocks[0]
	var prev *ssa.BasicBlock
	for {
		fr.visits[blk]++
		if fr.visits[blk] > e.Bound {
			e.end("unwind", fmt.Sprintf("unwinding bound %d exceeded in %s", e.Bound, fr.fn))
		}
		// phis (simultaneous)
		nphi := 0
		for _, ins := range blk.Instrs {
			if _, ok := ins.(*ssa.Phi); ok {
				nphi++
			} else {
				break
			}
		}
		if nphi > 0 || len(blk.Preds) > 1 {
			idx := -1
			for i, p := range blk.Preds {
				if p == prev {
					idx = i
					break
				}
			}
			vals := make([]Value, nphi)
			for i := 0; i < nphi; i++ {
				vals[i] = e.eval(fr, blk.Instrs[i].(*ssa.Phi).Edges[idx])
			}
			for i := 0; i < nphi; i++ {
				fr.env[blk.Instrs[i].(*ssa.Phi)] = vals[i]
			}
			// non-termination: the whole frame state (all phis) repeats at a loop
			// head with no intervening heap write or symbolic decision
			if nphi > 0 {
				if fr.snaps == nil {
					fr.snaps = map[*ssa.BasicBlock][]loopSnap{}
				}
				all := fr.allPhis()
				hist := fr.snaps[blk]
				if len(hist) > 0 && (hist[0].writes != e.writes || hist[0].decs != e.decs) {
					hist = nil
				}
				for _, s := range hist {
					if sameVals(s.phis, all) {
						e.fail("hang", "hang", e.siteOf(fr), "loop state repeats without progress in "+shortFn(fr.fn), e.posOf(fr, blk.Instrs[0]))
					}
				}
				if len(hist) < 64 {
					hist = append(hist, loopSnap{e.writes, e.decs, all})
				}
				fr.snaps[blk] = hist
			}
		}
		for _, ins := range blk.Instrs[nphi:] {
			e.steps++
			e.frame = fr
			if progress && e.steps%200000 == 0 {
				fmt.Fprintf(os.Stderr, "[steps=%d in %s trace=%d cursor=%d queries=%d]\n", e.steps, fr.fn, len(e.trace), e.cursor, e.sol.Queries)
			}
			switch x := ins.(type) {
			case *ssa.If:
				c := e.eval(fr, x.Cond).(*Term)
				prev = blk
				if e.decide(c) {
					blk = blk.Succs[0]
				} else {
					blk = blk.Succs[1]
				}
			case *ssa.Jump:
				prev = blk
				blk = blk.Succs[0]
			case *ssa.Return:
				switch len(x.Results) {
				case 0:
					return nil
				case 1:
					return e.eval(fr, x.Results[0])
				}
				tv := make(TupleV, len(x.Results))
				for i, r := range x.Results {
					tv[i] = e.eval(fr, r)
				}
				return tv
			case *ssa.Panic:
				v := e.eval(fr, x.X)
				msg := "explicit panic"
				if iv, ok := v.(IfaceV); ok {
					if s, ok := iv.V.(StrV); ok {
						if cs, ok := s.Const(); ok {
							msg = "panic(" + cs + ")"
						}
					}
				}
				e.fail("panic", "panic:explicit", e.siteOf(fr), msg+" in "+shortFn(fr.fn), e.posOf(fr, x))
			default:
				e.exec(fr, ins)
				continue
			}
			break
		}
	}
}

func (fr *Frame) allPhis() []Value {
	var out []Value
	for _, b := range fr.fn.Blocks {
		for _, ins := range b.Instrs {
			ph, ok := ins.(*ssa.Phi)
			if !ok {
				break
			}
			out = append(out, fr.env[ph])
		}
	}
	return out
}

func sameVals(a, b []Value) bool {
	if len(a) != len(b) {
		return false
	}
	for i := range a {
		switch x := a[i].(type) {
		case nil:
			if b[i] != nil {
				return false
			}
		case *Term:
			y, ok := b[i].(*Term)
			if !ok || x != y {
				return false
			}
		case Ptr:
			y, ok := b[i].(Ptr)
			if !ok || x.Obj != y.Obj || !samePath(x.Path, y.Path) || x.NilCond != y.NilCond {
				return false
			}
		default:
			return false
		}
	}
	return true
}

func (e *Exec) eval(fr *Frame, v ssa.Value) Value {
	switch x := v.(type) {
	case *ssa.Const:
		return e.constValue(x)
	case *ssa.Global:
		return Ptr{Obj: e.global(x)}
	case *ssa.Function:
		return FuncV{Fn: x}
	case *ssa.Builtin:
		return FuncV{Stub: "builtin:" + x.Name()}
	case *ssa.FreeVar:
		for i, fv := range fr.fn.FreeVars {
			if fv == x {
				return fr.free[i]
			}
		}
	}
	r, ok := fr.env[v]
	if !ok {
		panic(fmt.Sprintf("eval: no value for %s (%T) in %s", v.Name(), v, fr.fn))
	}
	return r
}

func (e *Exec) exec(fr *Frame, ins ssa.Instruction) {
	switch x := ins.(type) {
	case *ssa.DebugRef:
	case *ssa.Alloc:
		et := x.Type().(*types.Pointer).Elem()
		o := e.newObj(e.zero(et), et)
		o.Name = x.Comment + " in " + shortFn(fr.fn)
		fr.env[x] = Ptr{Obj: o}
	case *ssa.BinOp:
		fr.env[x] = e.binop(fr, x, x.Op, e.eval(fr, x.X), e.eval(fr, x.Y), x.X.Type())
	case *ssa.UnOp:
		fr.env[x] = e.unop(fr, x)
	case *ssa.Call:
		fr.env[x] = e.doCall(fr, x, x.Common())
	case *ssa.ChangeInterface:
		fr.env[x] = e.eval(fr, x.X)
	case *ssa.ChangeType:
		fr.env[x] = e.eval(fr, x.X)
	case *ssa.Convert:
		fr.env[x] = e.convert(fr, x, e.eval(fr, x.X), x.X.Type(), x.Type())
	case *ssa.Extract:
		fr.env[x] = e.eval(fr, x.Tuple).(TupleV)[x.Index]
	case *ssa.Field:
		fr.env[x] = e.eval(fr, x.X).(StructV).F[x.Field]
	case *ssa.FieldAddr:
		p := e.derefCheck(fr, x, e.eval(fr, x.X).(Ptr))
		fr.env[x] = Ptr{Obj: p.Obj, Path: appendPath(p.Path, x.Field)}
	case *ssa.Index:
		fr.env[x] = e.index(fr, x, e.eval(fr, x.X), e.eval(fr, x.Index).(*Term))
	case *ssa.IndexAddr:
		fr.env[x] = e.indexAddr(fr, x, e.eval(fr, x.X), e.eval(fr, x.Index).(*Term))
	case *ssa.Lookup:
		fr.env[x] = e.lookup(fr, x)
	case *ssa.MakeClosure:
		fv := FuncV{Fn: x.Fn.(*ssa.Function)}
		for _, b := range x.Bindings {
			fv.Env = append(fv.Env, e.eval(fr, b))
		}
		fr.env[x] = fv
	case *ssa.MakeInterface:
		fr.env[x] = IfaceV{T: x.X.Type(), V: e.eval(fr, x.X)}
	case *ssa.MakeMap:
		mt := x.Type().Underlying().(*types.Map)
		e.nextObj++
		fr.env[x] = MapV{M: &MapObj{ID: e.nextObj, KT: mt.Key(), VT: mt.Elem(), Epoch: e.epoch}}
	case *ssa.MakeSlice:
		n, ok1 := constInt(e.eval(fr, x.Len).(*Term))
		c, ok2 := constInt(e.eval(fr, x.Cap).(*Term))
		if !ok1 || !ok2 {
			e.unsupported("make slice with symbolic size in %s", fr.fn)
		}
		et := x.Type().Underlying().(*types.Slice).Elem()
		fr.env[x] = e.makeSlice(et, n, c)
	case *ssa.MapUpdate:
		m := e.eval(fr, x.Map).(MapV)
		if m.M == nil {
			e.fail("panic", "panic:nil-map-write", e.siteOf(fr), "assignment to entry in nil map in "+shortFn(fr.fn), e.posOf(fr, x))
		}
		e.mapSet(m.M, e.eval(fr, x.Key), e.eval(fr, x.Value))
	case *ssa.Range:
		fr.env[x] = e.rangeStart(fr, x, e.eval(fr, x.X))
	case *ssa.Next:
		fr.env[x] = e.rangeNext(fr, x, e.eval(fr, x.Iter).(*mapIter))
	case *ssa.Slice:
		fr.env[x] = e.slice(fr, x)
	case *ssa.Store:
		p := e.derefCheck(fr, x, e.eval(fr, x.Addr).(Ptr))
		e.store(p, e.eval(fr, x.Val))
	case *ssa.TypeAssert:
		fr.env[x] = e.typeAssert(fr, x)
	case *ssa.RunDefers:
		for len(fr.defers) > 0 {
			d := fr.defers[len(fr.defers)-1]
			fr.defers = fr.defers[:len(fr.defers)-1]
			d()
		}
	case *ssa.Defer:
		// arguments are evaluated now, the call happens at RunDefers (recover is not modelled:
		// a panic ends the path as a failure before any deferred call would run)
		c := x.Common()
		if c.IsInvoke() {
			recv := e.eval(fr, c.Value)
			var args []Value
			for _, a := range c.Args {
				args = append(args, e.eval(fr, a))
			}
			fr.defers = append(fr.defers, func() { e.invoke(fr, x, recv.(IfaceV), c, args) })
		} else {
			var args []Value
			for _, a := range c.Args {
				args = append(args, e.eval(fr, a))
			}
			if fn := c.StaticCallee(); fn != nil {
				var free []Value
				if mc, ok := c.Value.(*ssa.MakeClosure); ok {
					free = e.eval(fr, mc).(FuncV).Env
				}
				fr.defers = append(fr.defers, func() { e.callAt(fn, args, free, fr, x) })
			} else {
				fv := e.eval(fr, c.Value).(FuncV)
				fr.defers = append(fr.defers, func() { e.callFuncV(fr, x, fv, args) })
			}
		}
	default:
		e.unsupported("SSA instruction %T in %s", ins, fr.fn)
	}
}

func constInt(t *Term) (int, bool) {
	if t.Op == "int" && t.I.IsInt64() {
		return int(t.I.Int64()), true
	}
	return 0, false
}

func (e *Exec) makeSlice(et types.Type, n, c int) SliceV {
	es := make([]Value, c)
	if c > 0 {
		z := e.zero(et)
		for i := range es {
			es[i] = z
		}
	}
	arr := e.newObj(ArrayV{E: es}, types.NewArray(et, int64(c)))
	return SliceV{Arr: arr, Off: 0, Len: n, Cap: c}
}

func (e *Exec) unop(fr *Frame, x *ssa.UnOp) Value {
	v := e.eval(fr, x.X)
	switch x.Op {
	case token.MUL:
		p := e.derefCheck(fr, x, v.(Ptr))
		r := e.load(p)
		if x.CommaOk {
			e.unsupported("channel receive")
		}
		return r
	case token.NOT:
		return e.tf.Not(v.(*Term))
	case token.SUB:
		if bits, signed, ok := intInfo(x.Type()); ok {
			return e.tf.Wrap(e.tf.Neg(v.(*Term)), bits, signed)
		}
	case token.XOR:
		if bits, signed, ok := intInfo(x.Type()); ok {
			// ^x = -x-1 (signed) ; 2^bits-1-x (unsigned)
			if signed {
				return e.tf.Sub(e.tf.Neg(v.(*Term)), e.tf.Int(1))
			}
			_, hi := typeRange(bits, false)
			return e.tf.Sub(e.tf.IntB(hi), v.(*Term))
		}
	}
	e.unsupported("unary op %s on %s", x.Op, x.X.Type())
	return nil
}

func (e *Exec) binop(fr *Frame, ins ssa.Instruction, op token.Token, a, b Value, t types.Type) Value {
	tf := e.tf
	switch op {
	case token.EQL:
		return e.valEq(a, b)
	case token.NEQ:
		return tf.Not(e.valEq(a, b))
	}
	if isString(t) {
		sa, sb := a.(StrV), b.(StrV)
		switch op {
		case token.ADD:
			return strConcat(tf, sa, sb)
		case token.LSS:
			return e.strLess(sa, sb)
		case token.GTR:
			return e.strLess(sb, sa)
		case token.LEQ:
			return tf.Not(e.strLess(sb, sa))
		case token.GEQ:
			return tf.Not(e.strLess(sa, sb))
		}
	}
	if bits, signed, ok := intInfo(t); ok {
		x, y := a.(*Term), b.(*Term)
		switch op {
		case token.ADD:
			return tf.Wrap(tf.Add(x, y), bits, signed)
		case token.SUB:
			return tf.Wrap(tf.Sub(x, y), bits, signed)
		case token.MUL:
			return tf.Wrap(tf.Mul(x, y), bits, signed)
		case token.QUO:
			e.goPanic(fr, ins, tf.Eq(y, tf.Int(0)), "divide-by-zero")
			return tf.Wrap(tf.DivT(x, y), bits, signed)
		case token.REM:
			e.goPanic(fr, ins, tf.Eq(y, tf.Int(0)), "divide-by-zero")
			return tf.RemT(x, y)
		case token.LSS:
			return tf.Lt(x, y)
		case token.LEQ:
			return tf.Le(x, y)
		case token.GTR:
			return tf.Lt(y, x)
		case token.GEQ:
			return tf.Le(y, x)
		case token.SHL:
			if k, ok := constInt(y); ok && k < 64 {
				return tf.Wrap(tf.Mul(x, tf.IntB(new(big.Int).Lsh(bi(1), uint(k)))), bits, signed)
			}
		case token.SHR:
			if k, ok := constInt(y); ok && k < 64 && x.Lo != nil && x.Lo.Sign() >= 0 {
				return tf.DivT(x, tf.IntB(new(big.Int).Lsh(bi(1), uint(k))))
			}
		case token.AND, token.OR, token.XOR, token.AND_NOT:
			if x.Op == "int" && y.Op == "int" {
				r := new(big.Int)
				switch op {
				case token.AND:
					r.And(x.I, y.I)
				case token.OR:
					r.Or(x.I, y.I)
				case token.XOR:
					r.Xor(x.I, y.I)
				case token.AND_NOT:
					r.AndNot(x.I, y.I)
				}
				return tf.Wrap(tf.IntB(r), bits, signed)
			}
			// x | y (or x ^ y) where one operand is a multiple of 2^c and the other lies in [0, 2^c): disjoint bits, a sum
			if op == token.OR || op == token.XOR {
				for _, pr := range [][2]*Term{{x, y}, {y, x}} {
					hi, lo := pr[0], pr[1]
					if c := pow2Multiple(hi, 0); c > 0 && lo.Lo != nil && lo.Hi != nil && lo.Lo.Sign() >= 0 && lo.Hi.BitLen() <= c {
						return tf.Wrap(tf.Add(hi, lo), bits, signed)
					}
				}
			}
			// symbolic operands with a small non-negative range: bit by bit
			if k, ok := smallBits(x, y); ok {
				res := tf.Int(0)
				for i := 0; i < k; i++ {
					bx := tf.EMod(tf.EDiv(x, 1<<uint(i)), 2)
					by := tf.EMod(tf.EDiv(y, 1<<uint(i)), 2)
					var b *Term
					switch op {
					case token.AND:
						b = tf.Mul(bx, by)
					case token.OR:
						b = tf.Sub(tf.Add(bx, by), tf.Mul(bx, by))
					case token.XOR:
						b = tf.Sub(tf.Add(bx, by), tf.Mul(tf.Int(2), tf.Mul(bx, by)))
					default: // AND_NOT
						b = tf.Sub(bx, tf.Mul(bx, by))
					}
					res = tf.Add(res, tf.Mul(b, tf.Int(1<<uint(i))))
				}
				return res
			}
		}
	}
	if _, ok := a.(*Term); ok && a.(*Term).Sort == SBool {
		x, y := a.(*Term), b.(*Term)
		switch op {
		case token.AND:
			return tf.And(x, y)
		case token.OR:
			return tf.Or(x, y)
		}
	}
	e.unsupported("binary op %s on %s in %s", op, t, fr.fn)
	return nil
}

// pow2Multiple: the largest c (capped at 62) such that t is syntactically a multiple of 2^c.
func pow2Multiple(t *Term, depth int) int {
	if depth > 16 {
		return 0
	}
	tz := func(i *big.Int) int {
		if i.Sign() == 0 {
			return 62
		}
		n := int(new(big.Int).Abs(i).TrailingZeroBits())
		if n > 62 {
			n = 62
		}
		return n
	}
	switch t.Op {
	case "int":
		return tz(t.I)
	case "*":
		a, b := pow2Multiple(t.Args[0], depth+1), pow2Multiple(t.Args[1], depth+1)
		if a+b > 62 {
			return 62
		}
		return a + b
	case "+", "-":
		a, b := pow2Multiple(t.Args[0], depth+1), pow2Multiple(t.Args[1], depth+1)
		if a < b {
			return a
		}
		return b
	case "neg":
		return pow2Multiple(t.Args[0], depth+1)
	case "wraps", "wrapu":
		c := pow2Multiple(t.Args[0], depth+1)
		if w := int(t.I.Int64()); c > w {
			c = w
		}
		return c
	}
	return 0
}

// smallBits: both operands are known to lie in [0, 2^k) for some k <= 16.
func smallBits(x, y *Term) (int, bool) {
	k := 0
	for _, t := range []*Term{x, y} {
		if t.Lo == nil || t.Hi == nil || t.Lo.Sign() < 0 || t.Hi.BitLen() > 16 {
			return 0, false
		}
		if t.Hi.BitLen() > k {
			k = t.Hi.BitLen()
		}
	}
	return k, true
}

func (e *Exec) strLess(a, b StrV) *Term {
	if ca, ok := a.Const(); ok {
		if cb, ok := b.Const(); ok {
			return e.tf.Bool(ca < cb)
		}
	}
	return e.tf.StrLt(a.Term(e.tf), b.Term(e.tf))
}

func nilCondOf(tf *TF, p Ptr) *Term {
	if p.Obj == nil {
		return tf.Bool(true)
	}
	if p.NilCond == nil {
		return tf.Bool(false)
	}
	return p.NilCond
}

func (e *Exec) valEq(a, b Value) *Term {
	tf := e.tf
	switch x := a.(type) {
	case *Term:
		return tf.Eq(x, b.(*Term))
	case StrV:
		return strEq(tf, x, b.(StrV))
	case Ptr:
		y := b.(Ptr)
		na, nb := nilCondOf(tf, x), nilCondOf(tf, y)
		if x.Obj != nil && y.Obj != nil && x.Obj == y.Obj && samePath(x.Path, y.Path) {
			return tf.Eq(na, nb)
		}
		return tf.And(na, nb)
	case StructV:
		y := b.(StructV)
		var cs []*Term
		for i := range x.F {
			cs = append(cs, e.valEq(x.F[i], y.F[i]))
		}
		return tf.And(cs...)
	case ArrayV:
		y := b.(ArrayV)
		var cs []*Term
		for i := range x.E {
			cs = append(cs, e.valEq(x.E[i], y.E[i]))
		}
		return tf.And(cs...)
	case TimeV:
		y := b.(TimeV)
		if x.Loc != y.Loc {
			return tf.Bool(false)
		}
		return tf.Eq(x.Sec, y.Sec)
	case IfaceV:
		y := b.(IfaceV)
		if x.T == nil || y.T == nil {
			return tf.Bool(x.T == nil && y.T == nil)
		}
		if !types.Identical(x.T, y.T) {
			return tf.Bool(false)
		}
		return e.valEq(x.V, y.V)
	case SliceV:
		y := b.(SliceV)
		if y.Arr == nil {
			return tf.Bool(x.Arr == nil)
		}
		if x.Arr == nil {
			return tf.Bool(y.Arr == nil)
		}
	case MapV:
		y := b.(MapV)
		if y.M == nil || x.M == nil {
			return tf.Bool(x.M == nil && y.M == nil)
		}
		return tf.Bool(x.M == y.M)
	case FuncV:
		y := b.(FuncV)
		xn := x.Fn == nil && x.Stub == ""
		yn := y.Fn == nil && y.Stub == ""
		if xn || yn {
			return tf.Bool(xn && yn)
		}
	case nil:
		return tf.Bool(b == nil)
	}
	e.unsupported("equality on %T", a)
	return nil
}

func (e *Exec) convert(fr *Frame, ins ssa.Instruction, v Value, from, to types.Type) Value {
	tf := e.tf
	if bits, signed, ok := intInfo(to); ok {
		if _, _, ok2 := intInfo(from); ok2 {
			return tf.Wrap(v.(*Term), bits, signed)
		}
		if isFloat(from) {
			e.unsupported("float to int conversion")
		}
	}
	if isFloat(to) {
		if isFloat(from) {
			fb, _ := from.Underlying().(*types.Basic)
			tb, _ := to.Underlying().(*types.Basic)
			if fb.Kind() == tb.Kind() || fb.Kind() == types.UntypedFloat {
				return v
			}
			t := v.(*Term)
			if t.Op == "int" {
				if tb.Kind() == types.Float64 {
					return e.floatBits(float64(math.Float32frombits(uint32(t.I.Uint64()))), to)
				}
				return e.floatBits(math.Float64frombits(t.I.Uint64()), to)
			}
			return tf.UF("f_conv_"+fb.Name()+"_"+tb.Name(), SInt, t)
		}
		if t, ok := v.(*Term); ok && t.Op == "int" {
			f, _ := new(big.Float).SetInt(t.I).Float64()
			return e.floatBits(f, to)
		}
		e.unsupported("int to float conversion of symbolic value")
	}
	if isString(to) {
		if isString(from) {
			return v
		}
		if _, _, ok := intInfo(from); ok { // string(rune)
			return StrV{Chars: []*Term{v.(*Term)}, IsCh: true}
		}
		if sl, ok := v.(SliceV); ok { // string([]byte)
			cs := make([]*Term, sl.Len)
			for i := 0; i < sl.Len; i++ {
				cs[i] = getPath(sl.Arr.V, []int{sl.Off + i}).(*Term)
			}
			return StrV{Chars: cs, IsCh: true}
		}
		if bv, ok := v.(BytesV); ok {
			return bv.S
		}
		if cv, ok := v.(chunksV); ok {
			var ts []*Term
			for _, c := range cv.cs {
				if c.num {
					e.unsupported("string conversion of binary chunks")
				}
				ts = append(ts, c.t)
			}
			return StrV{T: tf.Concat(ts...)}
		}
	}
	if st, ok := to.Underlying().(*types.Slice); ok && isString(from) {
		s := v.(StrV)
		if !s.IsCh {
			return BytesV{S: s}
		}
		es := make([]Value, len(s.Chars))
		for i, c := range s.Chars {
			es[i] = c
		}
		arr := e.newObj(ArrayV{E: es}, types.NewArray(st.Elem(), int64(len(es))))
		return SliceV{Arr: arr, Len: len(es), Cap: len(es)}
	}
	if _, ok := to.Underlying().(*types.Pointer); ok {
		return v
	}
	if types.Identical(from.Underlying(), to.Underlying()) {
		return v
	}
	e.unsupported("conversion %s -> %s", from, to)
	return nil
}

// BytesV is the []byte view of a symbolic-length string.
type BytesV struct{ S StrV }

func (e *Exec) index(fr *Frame, ins ssa.Instruction, x Value, i *Term) Value {
	switch c := x.(type) {
	case ArrayV:
		k, ok := constInt(i)
		if !ok {
			e.goPanic(fr, ins, e.tf.Or(e.tf.Lt(i, e.tf.Int(0)), e.tf.Le(e.tf.Int(int64(len(c.E))), i)), "index-out-of-range")
			return e.selectVal(c.E, i)
		}
		if k < 0 || k >= len(c.E) {
			e.fail("panic", "panic:index-out-of-range", e.siteOf(fr), "index out of range in "+shortFn(fr.fn), e.posOf(fr, ins))
		}
		return c.E[k]
	case StrV:
		return e.strIndex(fr, ins, c, i)
	}
	e.unsupported("index on %T", x)
	return nil
}

func (e *Exec) selectVal(es []Value, i *Term) Value {
	// ite chain over terms
	var r *Term
	for k := len(es) - 1; k >= 0; k-- {
		t, ok := es[k].(*Term)
		if !ok {
			e.unsupported("symbolic index over non-scalar elements")
		}
		if r == nil {
			r = t
		} else {
			r = e.tf.Ite(e.tf.Eq(i, e.tf.Int(int64(k))), t, r)
		}
	}
	return r
}

func (e *Exec) strIndex(fr *Frame, ins ssa.Instruction, s StrV, i *Term) Value {
	tf := e.tf
	e.goPanic(fr, ins, tf.Or(tf.Lt(i, tf.Int(0)), tf.Le(s.Len(tf), i)), "index-out-of-range")
	if s.IsCh {
		if k, ok := constInt(i); ok {
			return s.Chars[k]
		}
		var r *Term
		for k := len(s.Chars) - 1; k >= 0; k-- {
			if r == nil {
				r = s.Chars[k]
			} else {
				r = tf.Ite(tf.Eq(i, tf.Int(int64(k))), s.Chars[k], r)
			}
		}
		return r
	}
	return tf.CodeAt(s.T, i)
}

func (e *Exec) indexAddr(fr *Frame, ins ssa.Instruction, x Value, i *Term) Value {
	k, ok := constInt(i)
	switch c := x.(type) {
	case SliceV:
		if !ok {
			// symbolic index: fork over the concrete length
			e.goPanic(fr, ins, e.tf.Or(e.tf.Lt(i, e.tf.Int(0)), e.tf.Le(e.tf.Int(int64(c.Len)), i)), "index-out-of-range")
			for j := 0; j < c.Len; j++ {
				if j == c.Len-1 || e.decide(e.tf.Eq(i, e.tf.Int(int64(j)))) {
					return Ptr{Obj: c.Arr, Path: []int{c.Off + j}}
				}
			}
		}
		if k < 0 || k >= c.Len {
			e.fail("panic", "panic:index-out-of-range", e.siteOf(fr), fmt.Sprintf("index out of range [%d] with length %d in %s", k, c.Len, shortFn(fr.fn)), e.posOf(fr, ins))
		}
		return Ptr{Obj: c.Arr, Path: []int{c.Off + k}}
	case Ptr:
		p := e.derefCheck(fr, ins, c)
		arr := getPath(p.Obj.V, p.Path).(ArrayV)
		if !ok {
			e.goPanic(fr, ins, e.tf.Or(e.tf.Lt(i, e.tf.Int(0)), e.tf.Le(e.tf.Int(int64(len(arr.E))), i)), "index-out-of-range")
			for j := 0; j < len(arr.E); j++ {
				if j == len(arr.E)-1 || e.decide(e.tf.Eq(i, e.tf.Int(int64(j)))) {
					return Ptr{Obj: p.Obj, Path: appendPath(p.Path, j)}
				}
			}
		}
		if k < 0 || k >= len(arr.E) {
			e.fail("panic", "panic:index-out-of-range", e.siteOf(fr), "index out of range in "+shortFn(fr.fn), e.posOf(fr, ins))
		}
		return Ptr{Obj: p.Obj, Path: appendPath(p.Path, k)}
	}
	e.unsupported("indexaddr on %T", x)
	return nil
}

func (e *Exec) slice(fr *Frame, x *ssa.Slice) Value {
	v := e.eval(fr, x.X)
	tf := e.tf
	var lo, hi, max *Term
	if x.Low != nil {
		lo = e.eval(fr, x.Low).(*Term)
	}
	if x.High != nil {
		hi = e.eval(fr, x.High).(*Term)
	}
	if x.Max != nil {
		max = e.eval(fr, x.Max).(*Term)
	}
	switch c := v.(type) {
	case StrV:
		n := c.Len(tf)
		if lo == nil {
			lo = tf.Int(0)
		}
		if hi == nil {
			hi = n
		}
		e.goPanic(fr, x, tf.Or(tf.Lt(lo, tf.Int(0)), tf.Lt(hi, lo), tf.Lt(n, hi)), "slice-bounds-out-of-range")
		if c.IsCh {
			l, ok1 := constInt(lo)
			h, ok2 := constInt(hi)
			if ok1 && ok2 {
				return StrV{Chars: c.Chars[l:h], IsCh: true}
			}
		}
		ct := c.Term(tf)
		if l, ok := constInt(lo); ok && x.High == nil && ct.Op == "concat" {
			// peel leading fixed-width segments
			args := ct.Args
			for l > 0 && len(args) > 0 {
				w, okw := strConstLen(args[0])
				if !okw || w > l {
					break
				}
				l -= w
				args = args[1:]
			}
			if l == 0 {
				return StrV{T: tf.Concat(args...)}
			}
		}
		return StrV{T: tf.Substr(ct, lo, tf.Sub(hi, lo))}
	case SliceV:
		l, h, m := 0, c.Len, c.Cap
		ok := true
		if lo != nil {
			l, ok = constInt(lo)
		}
		if hi != nil && ok {
			h, ok = constInt(hi)
		}
		if max != nil && ok {
			m, ok = constInt(max)
		}
		if !ok {
			e.unsupported("slice expression with symbolic bounds in %s", fr.fn)
		}
		if l < 0 || h < l || m < h || m > c.Cap {
			e.fail("panic", "panic:slice-bounds-out-of-range", e.siteOf(fr), fmt.Sprintf("slice bounds out of range [%d:%d] with capacity %d in %s", l, h, c.Cap, shortFn(fr.fn)), e.posOf(fr, x))
		}
		if c.Arr == nil {
			return SliceV{}
		}
		return SliceV{Arr: c.Arr, Off: c.Off + l, Len: h - l, Cap: m - l}
	case Ptr: // *array
		p := e.derefCheck(fr, x, c)
		arr := getPath(p.Obj.V, p.Path).(ArrayV)
		if len(p.Path) != 0 {
			e.unsupported("slicing an array nested in an object")
		}
		l, h := 0, len(arr.E)
		if lo != nil {
			l, _ = constInt(lo)
		}
		if hi != nil {
			h, _ = constInt(hi)
		}
		return SliceV{Arr: p.Obj, Off: l, Len: h - l, Cap: len(arr.E) - l}
	}
	e.unsupported("slice of %T", v)
	return nil
}

func (e *Exec) typeAssert(fr *Frame, x *ssa.TypeAssert) Value {
	v := e.eval(fr, x.X).(IfaceV)
	ok := false
	if v.T != nil {
		if it, isI := x.AssertedType.Underlying().(*types.Interface); isI {
			ok = e.implements(v.T, it)
		} else {
			ok = types.Identical(v.T, x.AssertedType)
		}
	}
	var res Value
	if _, isI := x.AssertedType.Underlying().(*types.Interface); isI {
		if ok {
			res = v
		} else {
			res = IfaceV{}
		}
	} else {
		if ok {
			res = v.V
		} else {
			res = e.zero(x.AssertedType)
		}
	}
	if x.CommaOk {
		return TupleV{res, e.tf.Bool(ok)}
	}
	if !ok {
		e.fail("panic", "panic:type-assertion", e.siteOf(fr), "interface conversion failed in "+shortFn(fr.fn), e.posOf(fr, x))
	}
	return res
}

func (e *Exec) implements(t types.Type, it *types.Interface) bool {
	if n, ok := t.(*types.Named); ok && strings.HasPrefix(n.Obj().Name(), "$") {
		return true // engine-opaque dynamic types implement what they are used as
	}
	return types.Implements(t, it)
}

func (e *Exec) doCall(fr *Frame, ins ssa.Instruction, c *ssa.CallCommon) Value {
	args := make([]Value, 0, len(c.Args)+1)
	if c.IsInvoke() {
		recv := e.eval(fr, c.Value).(IfaceV)
		for _, a := range c.Args {
			args = append(args, e.eval(fr, a))
		}
		return e.invoke(fr, ins, recv, c, args)
	}
	for _, a := range c.Args {
		args = append(args, e.eval(fr, a))
	}
	if fn := c.StaticCallee(); fn != nil {
		var free []Value
		if mc, ok := c.Value.(*ssa.MakeClosure); ok {
			free = e.eval(fr, mc).(FuncV).Env
		}
		return e.callAt(fn, args, free, fr, ins)
	}
	fv := e.eval(fr, c.Value).(FuncV)
	return e.callFuncV(fr, ins, fv, args)
}

func (e *Exec) invoke(fr *Frame, ins ssa.Instruction, recv IfaceV, c *ssa.CallCommon, args []Value) Value {
	if recv.T == nil {
		e.fail("panic", "panic:nil-deref", e.siteOf(fr), "method call on nil interface in "+shortFn(fr.fn), e.posOf(fr, ins))
	}
	if n, ok := recv.T.(*types.Named); ok && strings.HasPrefix(n.Obj().Name(), "$") {
		key := n.Obj().Name() + "." + c.Method.Name()
		if st, ok := opaqueMethods[key]; ok {
			return st(e, fr, recv, args)
		}
		if st, ok := opaqueMethods["$*."+c.Method.Name()]; ok {
			return st(e, fr, recv, args)
		}
		e.unsupported("method %s on opaque value", key)
	}
	fn := e.P.Prog.LookupMethod(recv.T, c.Method.Pkg(), c.Method.Name())
	if fn == nil {
		e.unsupported("no method %s on %s", c.Method.Name(), recv.T)
	}
	return e.callAt(fn, append([]Value{recv.V}, args...), nil, fr, ins)
}

func (e *Exec) callFuncV(fr *Frame, ins ssa.Instruction, fv FuncV, args []Value) Value {
	if fv.Stub != "" {
		if strings.HasPrefix(fv.Stub, "builtin:") {
			return e.builtin(fr, ins, strings.TrimPrefix(fv.Stub, "builtin:"), args)
		}
		if st, ok := funcStubs[fv.Stub]; ok {
			return st(e, fr, fv, args)
		}
		e.unsupported("call of engine function %s", fv.Stub)
	}
	if fv.Fn == nil {
		e.fail("panic", "panic:nil-func", e.siteOf(fr), "call of nil function in "+shortFn(fr.fn), e.posOf(fr, ins))
	}
	return e.callAt(fv.Fn, args, fv.Env, fr, ins)
}

func (e *Exec) builtin(fr *Frame, ins ssa.Instruction, name string, args []Value) Value {
	tf := e.tf
	switch name {
	case "len":
		switch x := args[0].(type) {
		case StrV:
			return x.Len(tf)
		case SliceV:
			return tf.Int(int64(x.Len))
		case MapV:
			if x.M == nil {
				return tf.Int(0)
			}
			if e.curFoot != nil {
				e.curFoot.readMap(x.M) // len(m) reads the map header: it races with a concurrent insert
			}
			return tf.Int(int64(len(x.M.Keys)))
		case ArrayV:
			return tf.Int(int64(len(x.E)))
		case BytesV:
			return x.S.Len(tf)
		case Ptr:
			return tf.Int(int64(len(getPath(x.Obj.V, x.Path).(ArrayV).E)))
		}
	case "cap":
		switch x := args[0].(type) {
		case SliceV:
			return tf.Int(int64(x.Cap))
		}
	case "append":
		s := args[0].(SliceV)
		var add []Value
		switch y := args[1].(type) {
		case SliceV:
			for i := 0; i < y.Len; i++ {
				add = append(add, getPath(y.Arr.V, []int{y.Off + i}))
			}
		case StrV:
			if !y.IsCh {
				e.unsupported("append of symbolic-length string")
			}
			for _, c := range y.Chars {
				add = append(add, c)
			}
		default:
			e.unsupported("append of %T", args[1])
		}
		if len(add) == 0 {
			return s
		}
		if s.Arr != nil && s.Len+len(add) <= s.Cap {
			for i, v := range add {
				e.store(Ptr{Obj: s.Arr, Path: []int{s.Off + s.Len + i}}, v)
			}
			return SliceV{Arr: s.Arr, Off: s.Off, Len: s.Len + len(add), Cap: s.Cap}
		}
		newLen := s.Len + len(add)
		newCap := 2 * s.Cap
		if newLen > newCap {
			newCap = newLen
		}
		var et types.Type
		if c, ok := ins.(*ssa.Call); ok {
			et = c.Type().Underlying().(*types.Slice).Elem()
		} else {
			e.unsupported("append outside call")
		}
		ns := e.makeSlice(et, newLen, newCap)
		es := ns.Arr.V.(ArrayV).E
		for i := 0; i < s.Len; i++ {
			es[i] = getPath(s.Arr.V, []int{s.Off + i})
		}
		for i, v := range add {
			es[s.Len+i] = v
		}
		return ns
	case "copy":
		d := args[0].(SliceV)
		var src []Value
		switch y := args[1].(type) {
		case SliceV:
			for i := 0; i < y.Len; i++ {
				src = append(src, getPath(y.Arr.V, []int{y.Off + i}))
			}
		case StrV:
			for _, c := range y.Chars {
				src = append(src, c)
			}
		}
		n := len(src)
		if d.Len < n {
			n = d.Len
		}
		for i := 0; i < n; i++ {
			e.store(Ptr{Obj: d.Arr, Path: []int{d.Off + i}}, src[i])
		}
		return tf.Int(int64(n))
	case "delete":
		m := args[0].(MapV)
		if m.M != nil {
			e.mapDelete(m.M, args[1])
		}
		return nil
	case "print", "println":
		return nil
	case "ssa:wrapnilchk":
		p := args[0].(Ptr)
		e.derefCheck(fr, ins, p)
		return p
	case "min", "max":
		r := args[0].(*Term)
		for _, a := range args[1:] {
			y := a.(*Term)
			if name == "min" {
				r = tf.Ite(tf.Lt(y, r), y, r)
			} else {
				r = tf.Ite(tf.Lt(r, y), y, r)
			}
		}
		return r
	}
	e.unsupported("builtin %s on %T", name, args[0])
	return nil
}
