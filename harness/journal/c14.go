//go:build verif

package journal

import (
	"time"

	"github.com/jamespfennell/gtfs"
	vr "github.com/jamespfennell/gtfs/internal/verifrt"
)

func Harness_smoke() {
	a := vr.I64("a")
	b := vr.I64("b")
	vr.Assume(a < 100 && a > 0 && b > 0 && b < 100)
	t := Trip{}
	id := vr.Str("id")
	st := []gtfs.StopTimeUpdate{{StopID: &id}}
	now := vr.Unix(a, time.UTC)
	t.update(&gtfs.Trip{ID: gtfs.TripID{ID: "123456_X"}, StopTimeUpdates: st}, now)
	vr.Assert("smoke.len", len(t.StopTimes) == 1)
	vr.Assert("smoke.id", t.StopTimes[0].StopID == id)
	vr.Assert("smoke.bad", t.StopTimes[0].LastObserved.Unix() != 42)
}

func init() { vr.Register("Harness_smoke", Harness_smoke) }
