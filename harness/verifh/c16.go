//go:build verif

package verifh

import (
	"time"

	"github.com/jamespfennell/gtfs"
	"github.com/jamespfennell/gtfs/extensions/nycttrips"
	vr "github.com/jamespfennell/gtfs/internal/verifrt"
	gtfsrt "github.com/jamespfennell/gtfs/proto"
	"google.golang.org/protobuf/proto"
)

func init() {
	vr.Register("Harness_C16_trip", Harness_C16_trip)
	vr.Register("Harness_C16_stale", Harness_C16_stale)
	vr.Register("Harness_C16_transparent", Harness_C16_transparent)
	vr.Register("Harness_C16_mtrain", Harness_C16_mtrain)
}

func hNyctOpts() nycttrips.ExtensionOpts {
	return nycttrips.ExtensionOpts{FilterStaleUnassignedTrips: vr.Param("FILTER", 0) == 1, PreserveMTrainPlatformsInBushwick: vr.Param("PRESERVE", 0) == 1}
}

func hOptStr(tag string) *string {
	s := vr.Str(tag)
	return vr.MaybeNil(tag+".nil", &s)
}

// hNyctTripID: an NYCT-format trip id DDDDDD_R..X with six symbolic digits
// (origin time 000000-599999, hundredths of a minute after midnight).
func hNyctTripID(tag string) (string, int) {
	d0 := vr.Int(tag+".origin.d0", 0, 5)
	rest := vr.Chars(tag+".origin.rest", 5, "digit")
	hundredths := d0*100000 + hAtoi(rest)
	id := string(rune('0'+d0)) + rest + "_" + vr.Chars(tag+".route", 1, "alnum") + vr.Chars(tag+".sep", 2, "print") + vr.OneOf(tag+".ns", "N", "S") + vr.Chars(tag+".path", 1, "alnum")
	return id, hundredths
}

func hAtoi(s string) int {
	n := 0
	for i := 0; i < len(s); i++ {
		n = n*10 + int(s[i]-'0')
	}
	return n
}

// A trip update carrying the NYCT trip descriptor: direction, start time from
// the trip id, vehicle from the train id, track per stop time.
func Harness_C16_trip() {
	tripID, hundredths := hNyctTripID("trip")
	if vr.Param("NONMATCHING", 0) == 1 {
		tripID = vr.Str("trip.plain_id")
		vr.Assume(!nycttrips.TripIDRegex.MatchString(tripID))
	}
	route := vr.Str("trip.route_id")
	nyct := &gtfsrt.NyctTripDescriptor{TrainId: hOptStr("nyct.train_id")}
	assigned := vr.Bool("nyct.is_assigned")
	if !vr.Bool("nyct.is_assigned.nil") {
		nyct.IsAssigned = &assigned
	} else {
		assigned = false
	}
	dirKind := hConcretize(vr.Int("nyct.direction", 0, 4), 0, 4) // 0 absent, 1 NORTH, 2 EAST, 3 SOUTH, 4 WEST
	if dirKind > 0 {
		d := gtfsrt.NyctTripDescriptor_Direction(dirKind)
		nyct.Direction = &d
	}
	td := &gtfsrt.TripDescriptor{TripId: &tripID, RouteId: &route}
	proto.SetExtension(td, gtfsrt.E_NyctTripDescriptor, nyct)
	S := vr.Param("S", 1)
	tu := &gtfsrt.TripUpdate{Trip: td}
	type trk struct{ sched, actual *string }
	var tracks []trk
	var hasExt []bool
	for i := 0; i < S; i++ {
		sid := vr.Str(vr.T("stu", i, ".stop_id"))
		dep := vr.I64(vr.T("stu", i, ".departure"))
		stu := &gtfsrt.TripUpdate_StopTimeUpdate{StopId: &sid, Departure: &gtfsrt.TripUpdate_StopTimeEvent{Time: &dep}}
		t := trk{hOptStr(vr.T("stu", i, ".scheduled_track")), hOptStr(vr.T("stu", i, ".actual_track"))}
		he := vr.Bool(vr.T("stu", i, ".has_nyct"))
		if he {
			proto.SetExtension(stu, gtfsrt.E_NyctStopTimeUpdate, &gtfsrt.NyctStopTimeUpdate{ScheduledTrack: t.sched, ActualTrack: t.actual})
		}
		tracks = append(tracks, t)
		hasExt = append(hasExt, he)
		tu.StopTimeUpdate = append(tu.StopTimeUpdate, stu)
	}
	// the feed may already carry a vehicle descriptor of its own: 0 none, 1 with an id and a label, 2 label only
	vkind := hConcretize(vr.Int("feed_vehicle.kind", 0, 2), 0, 2)
	var feedVehicle *gtfsrt.VehicleDescriptor
	switch vkind {
	case 1:
		fid, fl := vr.Str("feed_vehicle.id"), vr.Str("feed_vehicle.label")
		vr.Assume(fid != "")
		feedVehicle = &gtfsrt.VehicleDescriptor{Id: &fid, Label: &fl}
	case 2:
		fl := vr.Str("feed_vehicle.label")
		vr.Assume(fl != "")
		feedVehicle = &gtfsrt.VehicleDescriptor{Label: &fl}
	}
	tu.Vehicle = feedVehicle
	ver, eid := "2.0", "e"
	ent := &gtfsrt.FeedEntity{Id: &eid, TripUpdate: tu}
	if vr.Param("ENT", 0) == 1 { // the same descriptors on a vehicle position entity
		ent = &gtfsrt.FeedEntity{Id: &eid, Vehicle: &gtfsrt.VehiclePosition{Trip: td, Vehicle: feedVehicle}}
	}
	msg := &gtfsrt.FeedMessage{Header: &gtfsrt.FeedHeader{GtfsRealtimeVersion: &ver}, Entity: []*gtfsrt.FeedEntity{ent}}
	opts := nycttrips.ExtensionOpts{PreserveMTrainPlatformsInBushwick: true}
	r, err := gtfs.ParseRealtime(vr.Marshal(msg), &gtfs.ParseRealtimeOptions{Extension: nycttrips.Extension(opts)})
	vr.Assert("C16.returns", err == nil && r != nil)
	if r == nil {
		return
	}
	vr.Assert("C16.kept", len(r.Trips) == 1)
	if len(r.Trips) != 1 {
		return
	}
	t := r.Trips[0]
	switch dirKind {
	case 1:
		vr.Assert("C16.direction", t.ID.DirectionID == gtfs.DirectionID_False)
	case 3:
		vr.Assert("C16.direction", t.ID.DirectionID == gtfs.DirectionID_True)
	}
	if vr.Param("NONMATCHING", 0) == 1 {
		vr.Assert("C16.start_time.absent", !t.ID.HasStartTime)
	} else {
		vr.Assert("C16.start_time", vr.And(t.ID.HasStartTime, t.ID.StartTime == time.Duration(hundredths*6/10)*time.Second))
	}
	if assigned {
		train := ""
		if nyct.TrainId != nil {
			train = *nyct.TrainId
		}
		if train != "" {
			vr.Assert("C16.assigned.vehicle", t.Vehicle != nil && t.Vehicle.ID != nil && t.Vehicle.ID.ID == train)
			vr.Assert("C16.assigned.vehicles", len(r.Vehicles) == 1 && r.Vehicles[0].Trip != nil)
		}
	} else if vkind == 0 && vr.Param("ENT", 0) == 0 {
		vr.Assert("C16.unassigned.no_vehicle", t.Vehicle == nil && len(r.Vehicles) == 0)
	}
	if vr.Param("ENT", 0) == 1 {
		return // a vehicle position carries no stop time updates
	}
	vr.Assert("C16.stop_times", len(t.StopTimeUpdates) == S)
	if len(t.StopTimeUpdates) != S {
		return
	}
	for i := 0; i < S; i++ {
		var want *string
		if hasExt[i] {
			want = tracks[i].sched
			if tracks[i].actual != nil {
				want = tracks[i].actual
			}
		}
		vr.Assert("C16.track", vr.DeepEq(t.StopTimeUpdates[i].NyctTrack, want))
	}
}

func hConcretize(x, lo, hi int) int {
	for k := lo; k < hi; k++ {
		if x == k {
			return k
		}
	}
	return hi
}

// Stale-trip filtering: dropped exactly when filtering is on, the trip is
// unassigned and the departure (else arrival) time of the first stop is
// missing or earlier than the feed timestamp.
func Harness_C16_stale() {
	tripID := "123456_A..N"
	nyct := &gtfsrt.NyctTripDescriptor{}
	assigned := vr.Bool("nyct.is_assigned")
	nyct.IsAssigned = &assigned
	train := "T1"
	nyct.TrainId = &train
	td := &gtfsrt.TripDescriptor{TripId: &tripID}
	hasNyct := vr.Bool("has_nyct_descriptor")
	if hasNyct {
		proto.SetExtension(td, gtfsrt.E_NyctTripDescriptor, nyct)
	}
	tu := &gtfsrt.TripUpdate{Trip: td}
	S := hConcretize(vr.Int("stop_times", 0, 2), 0, 2)
	var first int64
	for i := 0; i < S; i++ {
		sid := vr.Str(vr.T("stu", i, ".stop_id"))
		stu := &gtfsrt.TripUpdate_StopTimeUpdate{StopId: &sid}
		var dep, arr int64
		if vr.Bool(vr.T("stu", i, ".has_departure")) {
			dep = vr.I64(vr.T("stu", i, ".departure"))
			vr.Assume(dep != 0)
			stu.Departure = &gtfsrt.TripUpdate_StopTimeEvent{Time: &dep}
		}
		if vr.Bool(vr.T("stu", i, ".has_arrival")) {
			arr = vr.I64(vr.T("stu", i, ".arrival"))
			vr.Assume(arr != 0)
			stu.Arrival = &gtfsrt.TripUpdate_StopTimeEvent{Time: &arr}
		}
		if i == 0 {
			first = dep
			if dep == 0 {
				first = arr
			}
		}
		tu.StopTimeUpdate = append(tu.StopTimeUpdate, stu)
	}
	ts := vr.U64("header.timestamp")
	vr.Assume(ts < 1<<63)
	ver, eid := "2.0", "e"
	msg := &gtfsrt.FeedMessage{Header: &gtfsrt.FeedHeader{GtfsRealtimeVersion: &ver, Timestamp: &ts}, Entity: []*gtfsrt.FeedEntity{{Id: &eid, TripUpdate: tu}}}
	filter := vr.Bool("filter")
	r, err := gtfs.ParseRealtime(vr.Marshal(msg), &gtfs.ParseRealtimeOptions{Extension: nycttrips.Extension(nycttrips.ExtensionOpts{FilterStaleUnassignedTrips: filter})})
	vr.Assert("C16.returns", err == nil && r != nil)
	if r == nil {
		return
	}
	isAssigned := hasNyct && assigned
	wantDrop := filter && hasNyct && !isAssigned && (S == 0 || first == 0 || first < int64(ts))
	if wantDrop {
		vr.Assert("C16.stale.dropped", len(r.Trips) == 0)
	} else {
		vr.Assert("C16.stale.kept", len(r.Trips) == 1)
	}
}

func hPlainMsg() *gtfsrt.FeedMessage {
	ver := "2.0"
	route := vr.Str("plain.route")
	vr.Assume(route != "M")
	tid := vr.Str("plain.trip")
	sid := vr.Chars("plain.stop", 4, "alnum")
	vid := vr.Str("plain.vehicle")
	dep := vr.I64("plain.departure")
	e1, e2, e3 := "e1", "e2", "e3"
	return &gtfsrt.FeedMessage{Header: &gtfsrt.FeedHeader{GtfsRealtimeVersion: &ver, Timestamp: vr.P(vr.U64("plain.timestamp"))}, Entity: []*gtfsrt.FeedEntity{
		{Id: &e1, TripUpdate: &gtfsrt.TripUpdate{Trip: &gtfsrt.TripDescriptor{TripId: &tid, RouteId: &route, StartTime: hOptStr("plain.start_time")},
			StopTimeUpdate: []*gtfsrt.TripUpdate_StopTimeUpdate{{StopId: &sid, Departure: &gtfsrt.TripUpdate_StopTimeEvent{Time: &dep}}}}},
		{Id: &e2, Vehicle: &gtfsrt.VehiclePosition{Vehicle: &gtfsrt.VehicleDescriptor{Id: &vid}, Trip: &gtfsrt.TripDescriptor{TripId: &tid, RouteId: &route}}},
		{Id: &e3, Alert: &gtfsrt.Alert{InformedEntity: []*gtfsrt.EntitySelector{{StopId: &sid}}}},
	}}
}

// Entities without NYCT extension data parse exactly as with no extension
// (any option combination; route other than M).
func Harness_C16_transparent() {
	msg := hPlainMsg()
	with, err1 := gtfs.ParseRealtime(vr.Marshal(msg), &gtfs.ParseRealtimeOptions{Extension: nycttrips.Extension(nycttrips.ExtensionOpts{
		FilterStaleUnassignedTrips: vr.Bool("filter"), PreserveMTrainPlatformsInBushwick: vr.Bool("preserve")})})
	without, err2 := gtfs.ParseRealtime(vr.Marshal(msg), &gtfs.ParseRealtimeOptions{})
	vr.Assert("C16.returns", err1 == nil && err2 == nil && with != nil && without != nil)
	if with == nil || without == nil {
		return
	}
	vr.Assert("C16.transparent", vr.And(vr.DeepEq(with.Trips, without.Trips), vr.DeepEq(with.Vehicles, without.Vehicles), vr.DeepEq(with.Alerts, without.Alerts)))
}

var hMStations = map[string]bool{"M11": true, "M12": true, "M13": true, "M14": true, "M16": true, "M18": true}

// The M-train platform swap: N<->S at M11-M14, M16, M18 on route M, unless
// disabled; nothing else is touched.
func Harness_C16_mtrain() {
	ver, eid := "2.0", "e"
	route := vr.OneOf("route", "M", "J", "")
	station := vr.OneOf("station", "M11", "M12", "M13", "M14", "M15", "M16", "M18", "M19", "A11")
	var sid string
	switch hConcretize(vr.Int("stop.shape", 0, 2), 0, 2) {
	case 0:
		sid = station + vr.Chars("stop.suffix", 1, "alnum")
	case 1:
		sid = station
	default:
		sid = station + vr.Chars("stop.suffix2", 2, "alnum")
	}
	other := vr.Str("other.stop")
	vr.Assume(len(other) != 4)
	tid := vr.Str("trip")
	preserve := vr.Bool("preserve")
	sid2 := vr.OneOf("stop2", "M18N", "M12S", "M19N") // a second stop of the same trip, affected or not
	msg := &gtfsrt.FeedMessage{Header: &gtfsrt.FeedHeader{GtfsRealtimeVersion: &ver}, Entity: []*gtfsrt.FeedEntity{
		{Id: &eid, TripUpdate: &gtfsrt.TripUpdate{Trip: &gtfsrt.TripDescriptor{TripId: &tid, RouteId: &route},
			StopTimeUpdate: []*gtfsrt.TripUpdate_StopTimeUpdate{{StopId: &sid}, {StopId: &other}, {}, {StopId: &sid2}}}}}}
	with, err1 := gtfs.ParseRealtime(vr.Marshal(msg), &gtfs.ParseRealtimeOptions{Extension: nycttrips.Extension(nycttrips.ExtensionOpts{PreserveMTrainPlatformsInBushwick: preserve})})
	without, err2 := gtfs.ParseRealtime(vr.Marshal(msg), &gtfs.ParseRealtimeOptions{})
	vr.Assert("C16.returns", err1 == nil && err2 == nil && with != nil && without != nil)
	if with == nil || without == nil || len(with.Trips) != 1 || len(without.Trips) != 1 || len(with.Trips[0].StopTimeUpdates) != 4 {
		vr.Assert("C16.mtrain.shape", false)
		return
	}
	want := sid
	if !preserve && route == "M" && len(sid) == 4 && hMStations[station] {
		if sid[3] == 'N' {
			want = station + "S"
		} else if sid[3] == 'S' {
			want = station + "N"
		}
	}
	got := with.Trips[0].StopTimeUpdates[0].StopID
	vr.Assert("C16.mtrain.swap", got != nil && *got == want)
	want2 := sid2
	if !preserve && route == "M" {
		switch sid2 {
		case "M18N":
			want2 = "M18S"
		case "M12S":
			want2 = "M12N"
		}
	}
	got2 := with.Trips[0].StopTimeUpdates[3].StopID
	vr.Assert("C16.mtrain.swap.second", got2 != nil && *got2 == want2)
	// nothing else is touched
	with.Trips[0].StopTimeUpdates[3].StopID = without.Trips[0].StopTimeUpdates[3].StopID
	with.Trips[0].StopTimeUpdates[0].StopID = without.Trips[0].StopTimeUpdates[0].StopID
	vr.Assert("C16.mtrain.nothing_else", vr.DeepEq(with.Trips, without.Trips))
}

func init() { vr.Register("Harness_C07_nyct_order", Harness_C07_nyct_order) }

// With the nycttrips extension: a trip update and the vehicle position of the same assigned NYCT
// trip, the feed's own vehicle descriptor (a label) on none, one or both of them, in both entity
// orders: same trips, same vehicles, same links.
func Harness_C07_nyct_order() {
	tid, route, train, assigned := "012345_A..N", "A", vr.Str("nyct.train_id"), true
	vr.Assume(train != "")
	label := vr.Str("feed_vehicle.label")
	vr.Assume(label != "")
	mk := func() *gtfsrt.TripDescriptor {
		id := tid
		td := &gtfsrt.TripDescriptor{TripId: &id, RouteId: &route}
		proto.SetExtension(td, gtfsrt.E_NyctTripDescriptor, &gtfsrt.NyctTripDescriptor{TrainId: &train, IsAssigned: &assigned})
		return td
	}
	desc := func(on bool) *gtfsrt.VehicleDescriptor {
		if !on {
			return nil
		}
		l := label
		return &gtfsrt.VehicleDescriptor{Label: &l}
	}
	sid := "A01N"
	tu := &gtfsrt.FeedEntity{Id: hStr("tu"), TripUpdate: &gtfsrt.TripUpdate{Trip: mk(), Vehicle: desc(vr.Bool("tu.has_descriptor")),
		StopTimeUpdate: []*gtfsrt.TripUpdate_StopTimeUpdate{{StopId: &sid}}}}
	vp := &gtfsrt.FeedEntity{Id: hStr("vp"), Vehicle: &gtfsrt.VehiclePosition{Trip: mk(), Vehicle: desc(vr.Bool("vp.has_descriptor")), StopId: &sid}}
	ver := "2.0"
	parse := func(es ...*gtfsrt.FeedEntity) *gtfs.Realtime {
		r, err := gtfs.ParseRealtime(vr.Marshal(&gtfsrt.FeedMessage{Header: &gtfsrt.FeedHeader{GtfsRealtimeVersion: &ver}, Entity: es}),
			&gtfs.ParseRealtimeOptions{Extension: nycttrips.Extension(nycttrips.ExtensionOpts{})})
		vr.Assert("C07.returns", err == nil && r != nil)
		return r
	}
	a, b := parse(tu, vp), parse(vp, tu)
	if a == nil || b == nil {
		return
	}
	vr.Assert("C07.perm.trips", vr.DeepEq(a.Trips, b.Trips))
	vr.Assert("C07.perm.vehicles.count", len(a.Vehicles) == len(b.Vehicles))
	if len(a.Vehicles) == 1 && len(b.Vehicles) == 1 {
		vr.Assert("C07.perm.vehicles", vr.DeepEq(a.Vehicles[0], b.Vehicles[0]))
		vr.Assert("C07.own.vehicle", a.Vehicles[0].IsEntityInMessage && b.Vehicles[0].IsEntityInMessage)
	}
}
