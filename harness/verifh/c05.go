//go:build verif

package verifh

import (
	"time"

	"github.com/jamespfennell/gtfs"
	"github.com/jamespfennell/gtfs/extensions"
	"github.com/jamespfennell/gtfs/extensions/nyctalerts"
	"github.com/jamespfennell/gtfs/extensions/nycttrips"
	vr "github.com/jamespfennell/gtfs/internal/verifrt"
	"github.com/jamespfennell/gtfs/journal"
	gtfsrt "github.com/jamespfennell/gtfs/proto"
	"google.golang.org/protobuf/proto"
)

func init() {
	vr.Register("Harness_C05_static", Harness_C05_static)
	vr.Register("Harness_C05_static_faults", Harness_C05_static_faults)
	vr.Register("Harness_C05_static_ragged", Harness_C05_static_ragged)
	vr.Register("Harness_C05_realtime", Harness_C05_realtime)
	vr.Register("Harness_C05_journal", Harness_C05_journal)
}

// hostile cell: arbitrary short text over the characters the parsers look at
func hCell(tag, class string, maxLen int) string {
	n := hConcretize(vr.Int(tag+".len", 0, maxLen), 0, maxLen)
	return vr.Chars(tag, n, class)
}

func hWalkStatic(s *gtfs.Static) {
	for i := range s.Stops {
		_ = s.Stops[i].Root()
	}
	for i := range s.Trips {
		_ = len(s.Trips[i].StopTimes) + len(s.Trips[i].Frequencies)
	}
}

// A full feed in which the file FILE has R rows of hostile cells: ids and
// references arbitrary, every parse-sensitive cell an arbitrary short string
// over {digits, ':', '-', '.', ' ', letter}. ParseStatic must return (result
// or error) and every accessor must terminate.
func Harness_C05_static() {
	R := vr.Param("R", 2)
	L := vr.Param("L", 2)
	LN := vr.Param("LN", 1)
	files := map[string]vr.File{}
	for _, f := range hConcreteFeed() {
		files[f.Name] = f
	}
	files["transfers.txt"] = vr.File{Name: "transfers.txt", Header: []string{"from_stop_id", "to_stop_id", "transfer_type", "min_transfer_time"}, Rows: [][]string{{"s1", "s2", "1", "30"}}}
	files["frequencies.txt"] = vr.File{Name: "frequencies.txt", Header: []string{"trip_id", "start_time", "end_time", "headway_secs"}, Rows: [][]string{{"t1", "06:00:00", "07:00:00", "600"}}}
	var rows [][]string
	var name string
	var hdr []string
	for i := 0; i < R; i++ {
		t := func(c string) string { return vr.T("r", i, ".", c) }
		switch vr.Param("FILE", 0) {
		case 0:
			name, hdr = "stop_times.txt", []string{"trip_id", "arrival_time", "departure_time", "stop_id", "stop_sequence", "shape_dist_traveled"}
			if vr.Param("TIMEONLY", 0) == 1 { // only the time cell is hostile, and may be longer
				rows = append(rows, []string{"t1", hCell(t("arr"), "time", L), "", "s1", "1", ""})
				continue
			}
			rows = append(rows, []string{vr.OneOf(t("trip"), "t1", "zz", ""), hCell(t("arr"), "time", L), vr.OneOf(t("dep"), "", "08:00:00"), vr.OneOf(t("stop"), "s1", "zz"), hCell(t("seq"), "num", LN), vr.OneOf(t("dist"), "", "abc")})
		case 1:
			name, hdr = "shapes.txt", []string{"shape_id", "shape_pt_lat", "shape_pt_lon", "shape_pt_sequence", "shape_dist_traveled"}
			rows = append(rows, []string{vr.Str(t("id")), vr.OneOf(t("lat"), "1.5", "", "abc", " 2 "), vr.OneOf(t("lon"), "2.5", "", "1e999"), hCell(t("seq"), "num", LN), vr.OneOf(t("dist"), "", "x")})
		case 2:
			name, hdr = "frequencies.txt", []string{"trip_id", "start_time", "end_time", "headway_secs", "exact_times"}
			rows = append(rows, []string{vr.OneOf(t("trip"), "t1", "zz", ""), hCell(t("start"), "time", L), vr.OneOf(t("end"), "07:00:00", "", "::::"), hCell(t("headway"), "num", LN), vr.OneOf(t("exact"), "", "1", "9")})
		case 3:
			name, hdr = "calendar_dates.txt", []string{"service_id", "date", "exception_type"}
			rows = append(rows, []string{vr.Str(t("service")), vr.OneOf(t("dateshape"), "20240230", "2024", "") + hCell(t("date"), "num", LN), vr.OneOf(t("type"), "1", "2", "", "x")})
		case 4:
			name, hdr = "calendar.txt", []string{"service_id", "monday", "tuesday", "wednesday", "thursday", "friday", "saturday", "sunday", "start_date", "end_date"}
			rows = append(rows, []string{vr.Str(t("service")), vr.OneOf(t("mon"), "1", "", "x"), "1", "1", "1", "1", "0", "0", vr.OneOf(t("startshape"), "20240101", "202401", "") + hCell(t("start"), "num", LN), vr.OneOf(t("end"), "20241231", "99999999", "")})
		case 5:
			name, hdr = "transfers.txt", []string{"from_stop_id", "to_stop_id", "transfer_type", "min_transfer_time"}
			rows = append(rows, []string{vr.Str(t("from")), vr.Str(t("to")), vr.OneOf(t("type"), "", "2", "x"), hCell(t("min"), "num", LN)})
		case 6:
			name, hdr = "routes.txt", []string{"route_id", "agency_id", "route_type", "route_sort_order"}
			rows = append(rows, []string{vr.Str(t("id")), vr.OneOf(t("agency"), "ag", "", "zz"), hCell(t("type"), "num", LN), hCell(t("sort"), "num", LN)})
		default:
			name, hdr = "trips.txt", []string{"route_id", "service_id", "trip_id", "shape_id", "direction_id"}
			rows = append(rows, []string{vr.Str(t("route")), vr.Str(t("service")), vr.Str(t("id")), vr.Str(t("shape")), hCell(t("dir"), "num", 1)})
		}
	}
	files[name] = vr.File{Name: name, Header: hdr, Rows: rows}
	var fs []vr.File
	for _, f := range files {
		fs = append(fs, f)
	}
	s, err := gtfs.ParseStatic(vr.Archive(hSortFiles(fs)), gtfs.ParseStaticOptions{InheritWheelchairBoarding: vr.Bool("inherit")})
	vr.Assert("C05.static.returns", (s != nil) != (err != nil))
	if s != nil {
		hWalkStatic(s)
	}
}

func hConcreteFeed() []vr.File {
	return []vr.File{
		{Name: "agency.txt", Header: []string{"agency_id", "agency_name", "agency_url", "agency_timezone"}, Rows: [][]string{{"ag", "A", "u", "UTC"}}},
		{Name: "routes.txt", Header: []string{"route_id", "agency_id", "route_type"}, Rows: [][]string{{"r1", "ag", "1"}}},
		{Name: "stops.txt", Header: []string{"stop_id", "stop_name", "parent_station"}, Rows: [][]string{{"s1", "a", "s3"}, {"s2", "b", "s3"}, {"s3", "c", ""}}},
		{Name: "calendar.txt", Header: []string{"service_id", "monday", "tuesday", "wednesday", "thursday", "friday", "saturday", "sunday", "start_date", "end_date"},
			Rows: [][]string{{"sv1", "1", "1", "1", "1", "1", "0", "0", "20240101", "20241231"}}},
		{Name: "calendar_dates.txt", Header: []string{"service_id", "date", "exception_type"}, Rows: [][]string{{"sv1", "20240704", "2"}}},
		{Name: "shapes.txt", Header: []string{"shape_id", "shape_pt_lat", "shape_pt_lon", "shape_pt_sequence"}, Rows: [][]string{{"sh1", "1", "2", "1"}}},
		{Name: "trips.txt", Header: []string{"route_id", "service_id", "trip_id", "shape_id"}, Rows: [][]string{{"r1", "sv1", "t1", "sh1"}, {"r1", "sv1", "t2", ""}}},
		{Name: "stop_times.txt", Header: []string{"trip_id", "arrival_time", "departure_time", "stop_id", "stop_sequence"},
			Rows: [][]string{{"t1", "08:00:00", "08:00:00", "s1", "2"}, {"t2", "08:00:00", "08:00:00", "s2", "1"}}},
	}
}

func hSortFiles(fs []vr.File) []vr.File {
	// deterministic member order (map iteration order in the harness must not matter)
	for i := 1; i < len(fs); i++ {
		for j := i; j > 0 && fs[j].Name < fs[j-1].Name; j-- {
			fs[j], fs[j-1] = fs[j-1], fs[j]
		}
	}
	return fs
}

// Structural faults: a required column or file missing, an empty member, a
// row of the wrong width, the input not being an archive.
func Harness_C05_static_faults() {
	fs := hSortFiles(hConcreteFeed())
	victim := hConcretize(vr.Int("victim", 0, len(fs)-1), 0, len(fs)-1)
	switch hConcretize(vr.Int("fault", 0, 4), 0, 4) {
	case 0: // drop the first column
		f := fs[victim]
		nf := vr.File{Name: f.Name, Header: f.Header[1:]}
		for _, r := range f.Rows {
			nf.Rows = append(nf.Rows, r[1:])
		}
		fs[victim] = nf
	case 1: // member without any row
		fs[victim] = vr.File{Name: fs[victim].Name}
	case 2: // member missing
		fs = append(fs[:victim], fs[victim+1:]...)
	case 3: // a short row
		f := fs[victim]
		if len(f.Rows) > 0 && len(f.Header) > 1 {
			nf := vr.File{Name: f.Name, Header: f.Header, Rows: append([][]string{f.Rows[0][:len(f.Header)-1]}, f.Rows...)}
			fs[victim] = nf
		}
	default: // header only
		fs[victim] = vr.File{Name: fs[victim].Name, Header: fs[victim].Header}
	}
	s, err := gtfs.ParseStatic(vr.Archive(fs), gtfs.ParseStaticOptions{})
	vr.Assert("C05.static.returns", (s != nil) != (err != nil))
	if s != nil {
		hWalkStatic(s)
	}
	s2, err2 := gtfs.ParseStatic(vr.BadBytes(), gtfs.ParseStaticOptions{})
	vr.Assert("C05.static.not_a_zip", s2 == nil && err2 != nil)
}

// Rows whose cell count differs from the header's (cells missing at the end, or
// one cell too many), in every file, with the optional default-bearing columns
// placed last so that a short row ends before them: ParseStatic returns a
// result or an error, it never indexes past the end of a row.
func Harness_C05_static_ragged() {
	files := map[string]vr.File{}
	for _, f := range hConcreteFeed() {
		files[f.Name] = f
	}
	wide := []vr.File{
		{Name: "routes.txt", Header: []string{"route_id", "agency_id", "route_type", "route_short_name", "route_color", "route_text_color", "continuous_pickup", "continuous_drop_off"},
			Rows: [][]string{{"r1", "ag", "1", "A", "00FF00", "000000", "0", "1"}}},
		{Name: "stops.txt", Header: []string{"stop_id", "stop_name", "parent_station", "location_type", "wheelchair_boarding"},
			Rows: [][]string{{"s3", "c", "", "1", "1"}, {"s1", "a", "s3", "0", "0"}, {"s2", "b", "s3", "0", "2"}}},
		{Name: "trips.txt", Header: []string{"route_id", "service_id", "trip_id", "direction_id", "wheelchair_accessible", "bikes_allowed"},
			Rows: [][]string{{"r1", "sv1", "t1", "0", "1", "2"}}},
		{Name: "stop_times.txt", Header: []string{"trip_id", "arrival_time", "departure_time", "stop_id", "stop_sequence", "pickup_type", "drop_off_type", "continuous_pickup", "continuous_drop_off", "timepoint"},
			Rows: [][]string{{"t1", "08:00:00", "08:00:30", "s1", "1", "0", "0", "1", "1", "1"}}},
		{Name: "transfers.txt", Header: []string{"from_stop_id", "to_stop_id", "min_transfer_time", "transfer_type"}, Rows: [][]string{{"s1", "s2", "30", "2"}}},
		{Name: "frequencies.txt", Header: []string{"trip_id", "start_time", "end_time", "headway_secs", "exact_times"}, Rows: [][]string{{"t1", "06:00:00", "07:00:00", "600", "1"}}},
		{Name: "calendar_dates.txt", Header: []string{"service_id", "date", "exception_type"}, Rows: [][]string{{"sv1", "20240704", "2"}}},
		{Name: "agency.txt", Header: []string{"agency_id", "agency_name", "agency_url", "agency_timezone", "agency_lang"}, Rows: [][]string{{"ag", "A", "u", "UTC", "en"}}},
	}
	for _, f := range wide {
		files[f.Name] = f
	}
	victim := wide[hConcretize(vr.Int("victim", 0, len(wide)-1), 0, len(wide)-1)]
	full := victim.Rows[len(victim.Rows)-1]
	n := hConcretize(vr.Int("cells", 1, len(full)+1), 1, len(full)+1) // at least one cell: the reader skips empty lines
	var ragged []string
	if n <= len(full) {
		ragged = append(ragged, full[:n]...)
	} else {
		ragged = append(append(ragged, full...), "x")
	}
	rows := append([][]string{}, victim.Rows...)
	if vr.Bool("ragged_first") {
		rows = append([][]string{ragged}, rows...)
	} else {
		rows = append(rows, ragged)
	}
	files[victim.Name] = vr.File{Name: victim.Name, Header: victim.Header, Rows: rows}
	var fs []vr.File
	for _, f := range files {
		fs = append(fs, f)
	}
	s, err := gtfs.ParseStatic(vr.Archive(hSortFiles(fs)), gtfs.ParseStaticOptions{InheritWheelchairBoarding: vr.Bool("inherit")})
	vr.Assert("C05.static.returns", (s != nil) != (err != nil))
	if s != nil {
		hWalkStatic(s)
	}
}

func hExtension() extensions.Extension {
	// OPTS encodes the option combination (bit set = option on)
	o := vr.Param("OPTS", 0)
	switch vr.Param("EXT", 0) {
	case 1:
		return nycttrips.Extension(nycttrips.ExtensionOpts{FilterStaleUnassignedTrips: o&1 != 0, PreserveMTrainPlatformsInBushwick: o&2 != 0})
	case 2:
		return nyctalerts.Extension(nyctalerts.ExtensionOpts{ElevatorAlertsDeduplicationPolicy: hPolicies[(o>>3)%3],
			ElevatorAlertsInformUsingStationIDs: o&1 != 0, SkipTimetabledNoServiceAlerts: o&2 != 0, AddNyctMetadata: o&4 != 0})
	}
	return nil
}

// hHostileMsg: E entities with arbitrary presence patterns: empty entities,
// empty descriptors, stop time updates without stop id or events, NYCT
// extension messages on some entities only, empty extension messages.
func hHostileMsg(tag string, E int) *gtfsrt.FeedMessage {
	ver := "2.0"
	msg := &gtfsrt.FeedMessage{Header: &gtfsrt.FeedHeader{GtfsRealtimeVersion: &ver, Timestamp: vr.MaybeNil(tag+".ts.nil", vr.P(vr.U64(tag+".ts")))}}
	if vr.Param("REQ", 0) == 1 {
		msg.Header.GtfsRealtimeVersion = vr.MaybeNil(tag+".version.nil", &ver)
		msg.Header = vr.MaybeNil(tag+".header.nil", msg.Header)
	}
	for e := 0; e < E; e++ {
		t := func(c string) string { return vr.T(tag, ".e", e, ".", c) }
		kind := vr.Param("KIND", 1)
		id := "e"
		if kind == 3 {
			id = vr.OneOf(t("id"), "e", "A27N#EL1", "lmm:alert:1", "#EL", "")
		}
		ent := &gtfsrt.FeedEntity{Id: &id}
		if vr.Param("REQ", 0) == 1 {
			// wire messages may lack fields the schema declares required (the decoder normally rejects them)
			ent.Id = vr.MaybeNil(t("entity_id.nil"), &id)
		}
		td := &gtfsrt.TripDescriptor{TripId: vr.MaybeNil(t("trip_id.nil"), vr.P(hTripIDCell(t("trip_id")))), RouteId: vr.MaybeNil(t("route.nil"), vr.P(hOne(t("route"), "M", "x"))),
			StartTime: vr.MaybeNil(t("start_time.nil"), vr.P(hOne(t("start_time"), "25:61:61", "", "aa:bb:cc"))), StartDate: vr.MaybeNil(t("start_date.nil"), vr.P(hOne(t("start_date"), "20241345", "")))}
		if vr.Bool(t("nyct_trip")) {
			nd := &gtfsrt.NyctTripDescriptor{}
			if vr.Bool(t("nyct_trip.filled")) {
				nd = &gtfsrt.NyctTripDescriptor{TrainId: vr.MaybeNil(t("train.nil"), vr.P("")), IsAssigned: vr.MaybeNil(t("assigned.nil"), vr.P(vr.Bool(t("assigned"))))}
			}
			proto.SetExtension(td, gtfsrt.E_NyctTripDescriptor, nd)
		}
		switch kind {
		case 0: // nothing set
		case 1:
			tu := &gtfsrt.TripUpdate{Trip: td}
			for s := 0; s < vr.Param("S", 1); s++ {
				stu := &gtfsrt.TripUpdate_StopTimeUpdate{StopId: vr.MaybeNil(vr.T(t("stu"), s, ".stop.nil"), vr.P(hOne(vr.T(t("stu"), s, ".stop"), "M11N", "", "M1", "M11NN")))}
				if vr.Bool(vr.T(t("stu"), s, ".arrival")) {
					stu.Arrival = &gtfsrt.TripUpdate_StopTimeEvent{Time: vr.MaybeNil(vr.T(t("stu"), s, ".arrival.time.nil"), vr.P(vr.I64(vr.T(t("stu"), s, ".arrival.time"))))}
				}
				if vr.Bool(vr.T(t("stu"), s, ".nyct")) {
					proto.SetExtension(stu, gtfsrt.E_NyctStopTimeUpdate, &gtfsrt.NyctStopTimeUpdate{})
				}
				tu.StopTimeUpdate = append(tu.StopTimeUpdate, stu)
			}
			if vr.Bool(t("vehicle_desc")) {
				tu.Vehicle = &gtfsrt.VehicleDescriptor{Id: vr.MaybeNil(t("vehicle_id.nil"), vr.P(""))}
			}
			ent.TripUpdate = tu
		case 2:
			vp := &gtfsrt.VehiclePosition{}
			if vr.Bool(t("vp_trip")) {
				vp.Trip = td
			}
			if vr.Bool(t("vehicle_desc")) {
				vp.Vehicle = &gtfsrt.VehicleDescriptor{Label: vr.MaybeNil(t("label.nil"), vr.P("L"))}
			}
			ent.Vehicle = vp
		default:
			al := &gtfsrt.Alert{}
			if vr.Bool(t("selector")) {
				sel := &gtfsrt.EntitySelector{}
				if vr.Bool(t("selector.trip")) {
					sel.Trip = td
				}
				if vr.Bool(t("selector.mercury")) {
					proto.SetExtension(sel, gtfsrt.E_MercuryEntitySelector, &gtfsrt.MercuryEntitySelector{SortOrder: vr.MaybeNil(t("sort.nil"), vr.P(vr.OneOf(t("sort"), "a:2", ":", "", "a:99999999999999999999")))})
				}
				al.InformedEntity = []*gtfsrt.EntitySelector{sel, nil}[:1]
			}
			if vr.Bool(t("mercury_alert")) {
				proto.SetExtension(al, gtfsrt.E_MercuryAlert, &gtfsrt.MercuryAlert{})
			}
			ent.Alert = al
		}
		msg.Entity = append(msg.Entity, ent)
	}
	return msg
}

// hTripIDCell: trip ids of every length 0..8 (fixed shapes) plus arbitrary text of length IDLEN
func hTripIDCell(tag string) string {
	switch hConcretize(vr.Int(tag+".shape", 0, 4), 0, 4) {
	case 0:
		return ""
	case 1:
		return "12345"
	case 2:
		return "123456_A..N"
	case 3:
		return "059999_"
	}
	return vr.Chars(tag, vr.Param("IDLEN", 2), "print")
}

// hOne: one of the options (LITE=1: always the first)
func hOne(tag string, opts ...string) string {
	if vr.Param("LITE", 0) == 1 {
		return opts[0]
	}
	return vr.OneOf(tag, opts...)
}

func hWalkRealtime(r *gtfs.Realtime) {
	for i := range r.Trips {
		_ = r.Trips[i].GetVehicle()
		r.Trips[i].Hash(&vr.Sink{})
		for j := range r.Trips[i].StopTimeUpdates {
			_ = r.Trips[i].StopTimeUpdates[j].GetArrival()
			_ = r.Trips[i].StopTimeUpdates[j].GetDeparture()
		}
	}
	for i := range r.Vehicles {
		_ = r.Vehicles[i].GetID()
		_ = r.Vehicles[i].GetTrip()
		r.Vehicles[i].Hash(&vr.Sink{})
	}
}

// Hostile realtime messages under every configuration of the bundled
// extensions: ParseRealtime returns a result or an error; accessors and hashes terminate.
func Harness_C05_realtime() {
	msg := hHostileMsg("m", vr.Param("E", 1))
	r, err := gtfs.ParseRealtime(vr.Marshal(msg), &gtfs.ParseRealtimeOptions{Extension: hExtension()})
	vr.Assert("C05.realtime.returns", (r != nil) != (err != nil))
	if r != nil {
		hWalkRealtime(r)
	}
	r2, err2 := gtfs.ParseRealtime(vr.BadBytes(), &gtfs.ParseRealtimeOptions{Extension: hExtension()})
	vr.Assert("C05.realtime.garbage", r2 == nil && err2 != nil)
}

type hFeeds struct {
	feeds []*gtfs.Realtime
	i     int
}

func (s *hFeeds) Next() *gtfs.Realtime {
	if s.i >= len(s.feeds) {
		return nil
	}
	s.i++
	return s.feeds[s.i-1]
}

// A journal built from F successfully parsed hostile feeds (trip ids of every
// length 0..8, stop time updates without stop id, trips without start date).
func Harness_C05_journal() {
	src := &hFeeds{}
	for f := 0; f < vr.Param("F", 1); f++ {
		r, err := gtfs.ParseRealtime(vr.Marshal(hHostileMsg(vr.T("f", f), vr.Param("E", 1))), &gtfs.ParseRealtimeOptions{Extension: hExtension()})
		if err != nil || r == nil {
			return
		}
		src.feeds = append(src.feeds, r)
	}
	j := journal.BuildJournal(src, vr.Unix(vr.I64("window.start"), time.UTC), vr.Unix(vr.I64("window.end"), time.UTC))
	vr.Assert("C05.journal.returns", j != nil)
}
