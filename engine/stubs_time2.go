package main

// time.Parse for the clock layout and (time.Time).Clock, needed when the
// repository validates HH:MM:SS through package time.

import (
	"time"

	"golang.org/x/tools/go/ssa"
)

const zeroYearSec = -62167219200 // 0000-01-01T00:00:00Z, the date time.Parse gives a clock-only layout

func init() {
	stubs["time.Parse"] = func(e *Exec, fr *Frame, fn *ssa.Function, a []Value) Value {
		tf := e.tf
		layout, ok := a[0].(StrV).Const()
		if !ok {
			e.unsupported("time.Parse with a symbolic layout")
		}
		s := a[1].(StrV)
		bad := TupleV{TimeV{Sec: tf.Int(-62135596800)}, e.newError("parsing time")}
		if cs, ok := s.Const(); ok {
			t, err := time.Parse(layout, cs)
			if err != nil {
				return bad
			}
			if t.Nanosecond() != 0 {
				e.unsupported("time.Parse yielding fractional seconds")
			}
			return TupleV{TimeV{Sec: tf.Int(t.Unix())}, IfaceV{}}
		}
		if layout != "15:04:05" {
			e.unsupported("time.Parse layout %q on symbolic input", layout)
		}
		if !s.IsCh {
			e.unsupported("time.Parse on symbolic-length string")
		}
		if len(s.Chars) < 8 {
			return bad
		}
		if len(s.Chars) > 8 {
			// the library accepts a fractional-second suffix here; keep to what is modelled
			e.unsupported("time.Parse of a clock string longer than 8 bytes")
		}
		c := s.Chars
		shape := tf.And(isDigitTerm(tf, c[0]), isDigitTerm(tf, c[1]), tf.Eq(c[2], tf.Int(':')), isDigitTerm(tf, c[3]), isDigitTerm(tf, c[4]),
			tf.Eq(c[5], tf.Int(':')), isDigitTerm(tf, c[6]), isDigitTerm(tf, c[7]))
		if !e.decide(shape) {
			return bad
		}
		h, m, sec := digitsVal(tf, c[0:2]), digitsVal(tf, c[3:5]), digitsVal(tf, c[6:8])
		if !e.decide(tf.And(tf.Lt(h, tf.Int(24)), tf.Lt(m, tf.Int(60)), tf.Lt(sec, tf.Int(60)))) {
			return bad
		}
		t := tf.Add(tf.Int(zeroYearSec), tf.Add(tf.Mul(h, tf.Int(3600)), tf.Add(tf.Mul(m, tf.Int(60)), sec)))
		return TupleV{TimeV{Sec: t}, IfaceV{}}
	}
	stubs["(time.Time).Clock"] = func(e *Exec, fr *Frame, fn *ssa.Function, a []Value) Value {
		tf := e.tf
		t := a[0].(TimeV)
		if t.Loc != nil && e.locName(t.Loc) != "UTC" {
			e.unsupported("Time.Clock in a non-UTC location")
		}
		sod := tf.EMod(t.Sec, 86400)
		return TupleV{tf.EDiv(sod, 3600), tf.EDiv(tf.EMod(sod, 3600), 60), tf.EMod(sod, 60)}
	}
}
