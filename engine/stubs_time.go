package main

// Abstract time: time.Time = (unix seconds term, location object).
// With concrete arguments the real time package computes the answer; local
// midnight of a symbolic civil date in a zone is the uninterpreted civil(y,m,d,zone)
// with strict monotonicity in the date instantiated pairwise.

import (
	"time"

	"golang.org/x/tools/go/ssa"
)

const secPerNs = 1000000000

type civilRec struct {
	y, m, d *Term
	loc     *Obj
	t       *Term
}

func (e *Exec) locName(o *Obj) string {
	if o == nil {
		return "UTC"
	}
	return o.Aux.(*time.Location).String()
}

func (e *Exec) civil(y, m, d *Term, loc *Obj) *Term {
	tf := e.tf
	if y.Op == "int" && m.Op == "int" && d.Op == "int" {
		l := time.UTC
		if loc != nil {
			l = loc.Aux.(*time.Location)
		}
		return tf.Int(time.Date(int(y.I.Int64()), time.Month(m.I.Int64()), int(d.I.Int64()), 0, 0, 0, 0, l).Unix())
	}
	zone := "civil_" + sanitize(e.locName(loc))
	t := tf.UF(zone, SInt, y, m, d)
	recs, _ := e.pathAux["civil"].([]civilRec)
	for _, r := range recs {
		if r.t == t {
			return t
		}
	}
	// monotonicity against earlier civil terms of the same zone, and sanity range
	key := func(y, m, d *Term) *Term { return tf.Add(tf.Add(tf.Mul(y, tf.Int(10000)), tf.Mul(m, tf.Int(100))), d) }
	for _, r := range recs {
		if r.loc != loc {
			continue
		}
		ka, kb := key(y, m, d), key(r.y, r.m, r.d)
		e.assumeAxiom(tf.And(
			tf.Implies(tf.Lt(ka, kb), tf.Lt(t, r.t)),
			tf.Implies(tf.Lt(kb, ka), tf.Lt(r.t, t)),
			tf.Implies(tf.Eq(ka, kb), tf.Eq(t, r.t))))
	}
	e.pathAux["civil"] = append(recs, civilRec{y, m, d, loc, t})
	return t
}

// assumeAxiom adds a fact about an abstraction to the path (not a harness assumption).
func (e *Exec) assumeAxiom(c *Term) { e.assume(c) }

func sanitize(s string) string {
	b := []byte(s)
	for i, c := range b {
		if !(c >= 'a' && c <= 'z' || c >= 'A' && c <= 'Z' || c >= '0' && c <= '9') {
			b[i] = '_'
		}
	}
	return string(b)
}

func daysInTerm(tf *TF, y, m *Term) *Term {
	leap := tf.And(tf.Eq(tf.RemT(y, tf.Int(4)), tf.Int(0)), tf.Or(tf.Not(tf.Eq(tf.RemT(y, tf.Int(100)), tf.Int(0))), tf.Eq(tf.RemT(y, tf.Int(400)), tf.Int(0))))
	d30 := tf.Or(tf.Eq(m, tf.Int(4)), tf.Eq(m, tf.Int(6)), tf.Eq(m, tf.Int(9)), tf.Eq(m, tf.Int(11)))
	return tf.Ite(tf.Eq(m, tf.Int(2)), tf.Ite(leap, tf.Int(29), tf.Int(28)), tf.Ite(d30, tf.Int(30), tf.Int(31)))
}

func digitsVal(tf *TF, cs []*Term) *Term {
	v := tf.Int(0)
	for _, c := range cs {
		v = tf.Add(tf.Mul(v, tf.Int(10)), tf.Sub(c, tf.Int('0')))
	}
	return v
}

func init() {
	stubs["time.Unix"] = func(e *Exec, fr *Frame, fn *ssa.Function, a []Value) Value {
		if n, ok := constInt(a[1].(*Term)); !ok || n != 0 {
			e.unsupported("time.Unix with nanoseconds")
		}
		return TimeV{Sec: a[0].(*Term), Loc: e.locObj("Local")}
	}
	stubs["(time.Time).In"] = func(e *Exec, fr *Frame, fn *ssa.Function, a []Value) Value {
		t := a[0].(TimeV)
		p := a[1].(Ptr)
		if p.Obj == nil {
			e.fail("panic", "panic:explicit", e.siteOf(fr), "time: missing Location in call to Time.In", "")
		}
		return TimeV{Sec: t.Sec, Loc: e.locOf(p)}
	}
	stubs["(time.Time).UTC"] = func(e *Exec, fr *Frame, fn *ssa.Function, a []Value) Value {
		return TimeV{Sec: a[0].(TimeV).Sec}
	}
	stubs["(time.Time).Unix"] = func(e *Exec, fr *Frame, fn *ssa.Function, a []Value) Value {
		return a[0].(TimeV).Sec
	}
	stubs["(time.Time).Location"] = func(e *Exec, fr *Frame, fn *ssa.Function, a []Value) Value {
		t := a[0].(TimeV)
		if t.Loc == nil {
			return Ptr{Obj: e.locObj("UTC")}
		}
		return Ptr{Obj: t.Loc}
	}
	stubs["(time.Time).IsZero"] = func(e *Exec, fr *Frame, fn *ssa.Function, a []Value) Value {
		return e.tf.Eq(a[0].(TimeV).Sec, e.tf.Int(-62135596800))
	}
	stubs["(time.Time).Before"] = func(e *Exec, fr *Frame, fn *ssa.Function, a []Value) Value {
		return e.tf.Lt(a[0].(TimeV).Sec, a[1].(TimeV).Sec)
	}
	stubs["(time.Time).After"] = func(e *Exec, fr *Frame, fn *ssa.Function, a []Value) Value {
		return e.tf.Lt(a[1].(TimeV).Sec, a[0].(TimeV).Sec)
	}
	stubs["(time.Time).Equal"] = func(e *Exec, fr *Frame, fn *ssa.Function, a []Value) Value {
		return e.tf.Eq(a[0].(TimeV).Sec, a[1].(TimeV).Sec)
	}
	stubs["(time.Time).Add"] = func(e *Exec, fr *Frame, fn *ssa.Function, a []Value) Value {
		t := a[0].(TimeV)
		d := a[1].(*Term)
		tf := e.tf
		var secs *Term
		if d.Op == "*" && d.Args[1].Op == "int" && d.Args[1].I.Cmp(bi(secPerNs)) == 0 {
			secs = d.Args[0]
		} else if d.Op == "int" && new(bigInt).Rem(d.I, bi(secPerNs)).Sign() == 0 {
			secs = tf.IntB(new(bigInt).Quo(d.I, bi(secPerNs)))
		} else {
			if e.decide(tf.Not(tf.Eq(tf.RemT(d, tf.Int(secPerNs)), tf.Int(0)))) {
				e.unsupported("time.Add of a sub-second duration")
			}
			secs = tf.DivT(d, tf.Int(secPerNs))
		}
		return TimeV{Sec: tf.Add(t.Sec, secs), Loc: t.Loc}
	}
	stubs["time.Date"] = func(e *Exec, fr *Frame, fn *ssa.Function, a []Value) Value {
		// fully concrete arguments: the real function
		allConst := true
		var n [7]int
		for i := 0; i < 7; i++ {
			v, ok := constInt(a[i].(*Term))
			if !ok {
				allConst = false
				break
			}
			n[i] = v
		}
		if allConst {
			p := a[7].(Ptr)
			if p.Obj == nil {
				e.fail("panic", "panic:explicit", e.siteOf(fr), "time: missing Location in call to Date", "")
			}
			loc := e.locOf(p)
			l := time.UTC
			if loc != nil {
				l = loc.Aux.(*time.Location)
			}
			t := time.Date(n[0], time.Month(n[1]), n[2], n[3], n[4], n[5], n[6], l)
			if t.Nanosecond() != 0 {
				e.unsupported("time.Date with nanoseconds")
			}
			return TimeV{Sec: e.tf.Int(t.Unix()), Loc: loc}
		}
		for _, x := range a[3:7] {
			if n, ok := constInt(x.(*Term)); !ok || n != 0 {
				e.unsupported("time.Date with a time of day")
			}
		}
		p := a[7].(Ptr)
		if p.Obj == nil {
			e.fail("panic", "panic:explicit", e.siteOf(fr), "time: missing Location in call to Date", "")
		}
		loc := e.locOf(p)
		return TimeV{Sec: e.civil(a[0].(*Term), a[1].(*Term), a[2].(*Term), loc), Loc: loc}
	}
	stubs["time.ParseInLocation"] = func(e *Exec, fr *Frame, fn *ssa.Function, a []Value) Value {
		tf := e.tf
		layout, _ := a[0].(StrV).Const()
		s := a[1].(StrV)
		p := a[2].(Ptr)
		if p.Obj == nil {
			e.fail("panic", "panic:explicit", e.siteOf(fr), "time: missing Location in call to ParseInLocation", "")
		}
		loc := e.locOf(p)
		bad := TupleV{TimeV{Sec: tf.Int(-62135596800)}, e.newError("parsing time")}
		if cs, ok := s.Const(); ok {
			l := time.UTC
			if loc != nil {
				l = loc.Aux.(*time.Location)
			}
			t, err := time.ParseInLocation(layout, cs, l)
			if err != nil {
				return bad
			}
			return TupleV{TimeV{Sec: tf.Int(t.Unix()), Loc: loc}, IfaceV{}}
		}
		if layout != "20060102" {
			e.unsupported("ParseInLocation layout %q on symbolic input", layout)
		}
		if !s.IsCh {
			e.unsupported("ParseInLocation on symbolic-length string")
		}
		if len(s.Chars) != 8 {
			return bad
		}
		var dg []*Term
		for _, c := range s.Chars {
			dg = append(dg, isDigitTerm(tf, c))
		}
		if !e.decide(tf.And(dg...)) {
			return bad
		}
		y, m, d := digitsVal(tf, s.Chars[0:4]), digitsVal(tf, s.Chars[4:6]), digitsVal(tf, s.Chars[6:8])
		valid := tf.And(tf.Le(tf.Int(1), m), tf.Le(m, tf.Int(12)), tf.Le(tf.Int(1), d), tf.Le(d, daysInTerm(tf, y, m)))
		if !e.decide(valid) {
			return bad
		}
		return TupleV{TimeV{Sec: e.civil(y, m, d, loc), Loc: loc}, IfaceV{}}
	}
	stubs["time.LoadLocation"] = func(e *Exec, fr *Frame, fn *ssa.Function, a []Value) Value {
		name, ok := a[0].(StrV).Const()
		if !ok {
			e.unsupported("LoadLocation of a symbolic name")
		}
		if name == "" || name == "UTC" {
			return TupleV{Ptr{Obj: e.locObj("UTC")}, IfaceV{}}
		}
		o := e.locObj(name)
		if o == nil {
			return TupleV{Ptr{}, e.newError("unknown time zone")}
		}
		return TupleV{Ptr{Obj: o}, IfaceV{}}
	}
	stubs["time.FixedZone"] = func(e *Exec, fr *Frame, fn *ssa.Function, a []Value) Value {
		name, _ := a[0].(StrV).Const()
		off, ok := constInt(a[1].(*Term))
		if !ok {
			e.unsupported("FixedZone with symbolic offset")
		}
		key := "fixed:" + name + ":" + itoa(off)
		if o, ok := e.locs[key]; ok {
			return Ptr{Obj: o}
		}
		o := e.newObj(StructV{}, nil)
		o.Aux = time.FixedZone(name, off)
		o.Name = key
		o.Epoch = 0
		e.locs[key] = o
		return Ptr{Obj: o}
	}
}
