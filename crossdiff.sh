#!/bin/bash
# usage: crossdiff.sh <pkgdir> <harness> [--params ...]  — re-runs the logged SMT transcript of one harness
# under z3 5.1.0 (z3-new) and diffs the sat/unsat/unknown verdicts with those of z3 4.8.12.
pk=$1; h=$2; shift 2
log=/tmp/crossdiff_$$
VERIF_SMTLOG=$log timeout 1800 /verif/bin/ssasym run "$@" $pk $h > /dev/null 2>&1
f=$log.$h.smt2
grep -v '^; ->' $f > $log.in.smt2
grep '^; -> \(sat\|unsat\|unknown\)$' $f | sed 's/^; -> //' > $log.a
timeout 3600 z3-new -T:3600 $log.in.smt2 2>&1 | grep '^\(sat\|unsat\|unknown\)$' > $log.b
na=$(wc -l < $log.a); nb=$(wc -l < $log.b)
d=$(diff $log.a $log.b | grep -c '^[<>]')
echo "$h $*: z3-4.8.12 verdicts=$na z3-5.1.0 verdicts=$nb differing_lines=$d"
diff $log.a $log.b | head -5
rm -f $log.*
