package main

// Merge-calls: a small side-effect-free callee (generated proto getter, enum
// decoder, ...) is enumerated path by path without consulting the solver and
// its outcomes are joined into one value (ite / maybe-nil pointer), so that
// optional fields do not fork the caller. Any obstacle (heap write to a
// pre-existing object, panic, unsupported construct, unmergeable results)
// falls back to ordinary forking execution: merging never changes what is
// explored.

import (
	"strings"

	"golang.org/x/tools/go/ssa"
)

type mergeOutcome struct {
	cond *Term
	val  Value
}

func (e *Exec) mergeable(fn *ssa.Function) bool {
	if e.noMerge || e.mergeDepth > 0 || fn.Blocks == nil {
		return false
	}
	name := fn.Name()
	pp := ""
	if fn.Pkg != nil {
		pp = fn.Pkg.Pkg.Path()
	}
	if pp == repoMod+"/proto" && strings.HasPrefix(name, "Get") {
		return true
	}
	if strings.HasPrefix(name, "hm_") {
		return true
	}
	if pp == repoMod {
		switch name {
		case "parseDirectionID_GTFSRealtime", "parseRouteType_GTFSRealtime", "parseRouteType_GTFSStatic", "parseDirectionID_GTFSStatic",
			"parsePickupDropOffPolicy", "parseBikesAllowed", "parseExactTimes", "parseStopType", "parseTransferType", "parseWheelchairBoarding",
			"parseStartTime", "parseStartDate", "tripIDUniquelyIdentifiesTrip", "alertInformedEntityInformsAtLeastOneEntity", "timezoneOrUTC":
			return true
		}
	}
	return false
}

// tryMerge runs fn over all its syntactic paths; ok=false means "execute normally".
func (e *Exec) tryMerge(fn *ssa.Function, args []Value, free []Value, caller *Frame, site ssa.Instruction) (Value, bool) {
	// save main-path state
	sTrace, sCursor := e.trace, e.cursor
	sKnown := e.known
	sAsserted := e.assertedVars
	sInputs := len(e.inputs)
	sSteps := e.steps
	baseObj := e.nextObj
	e.mergeDepth++
	e.mergeBase = baseObj
	e.mergeDirty = false
	var outs []mergeOutcome
	ok := true
	local := []traceEnt{}
	for iter := 0; ; iter++ {
		if iter > 64 {
			ok = false
			break
		}
		e.trace, e.cursor = local, 0
		e.known = copyKnown(sKnown)
		e.assertedVars = sAsserted
		var res Value
		failed := false
		func() {
			defer func() {
				if r := recover(); r != nil {
					if _, isEnd := r.(pathEnd); isEnd {
						failed = true
						return
					}
					panic(r)
				}
			}()
			res = e.callBody(fn, args, free, caller, site)
		}()
		local = e.trace
		if failed || e.mergeDirty || len(e.inputs) != sInputs {
			ok = false
			break
		}
		var lits []*Term
		for _, en := range local[:] {
			if en.kind != 'd' {
				ok = false
				break
			}
			if en.val {
				lits = append(lits, en.lit)
			} else {
				lits = append(lits, e.tf.Not(en.lit))
			}
		}
		if !ok {
			break
		}
		outs = append(outs, mergeOutcome{e.tf.And(lits...), res})
		i := len(local) - 1
		for i >= 0 && !local[i].open {
			i--
		}
		if i < 0 {
			break
		}
		local = local[:i+1]
		local[i].val = false
		local[i].open = false
	}
	// restore
	e.mergeDepth--
	e.trace, e.cursor = sTrace, sCursor
	e.known = sKnown
	e.assertedVars = sAsserted
	e.inputs = e.inputs[:sInputs]
	e.steps = sSteps + (e.steps-sSteps)/1
	if !ok || len(outs) == 0 {
		e.Unmerged[fn.Name()]++
		return nil, false
	}
	if len(outs) == 1 {
		return outs[0].val, true
	}
	v, ok := e.joinOutcomes(outs)
	if !ok {
		e.Unmerged[fn.Name()]++
		return nil, false
	}
	e.Merged[fn.Name()]++
	return v, true
}

func copyKnown(m map[int]bool) map[int]bool {
	n := make(map[int]bool, len(m)+8)
	for k, v := range m {
		n[k] = v
	}
	return n
}

func (e *Exec) joinOutcomes(outs []mergeOutcome) (Value, bool) {
	tf := e.tf
	switch first := outs[0].val.(type) {
	case nil:
		for _, o := range outs {
			if o.val != nil {
				return nil, false
			}
		}
		return nil, true
	case *Term:
		r := first
		for i := len(outs) - 1; i >= 1; i-- {
			t, ok := outs[i].val.(*Term)
			if !ok || t.Sort != first.Sort {
				return nil, false
			}
			if i == len(outs)-1 {
				r = t
			} else {
				r = tf.Ite(outs[i].cond, t, r)
			}
		}
		return tf.Ite(outs[0].cond, first, r), true
	case StrV:
		// character-wise when every outcome has the same concrete length
		same := first.IsCh
		for _, o := range outs {
			s, ok := o.val.(StrV)
			if !ok {
				return nil, false
			}
			if !s.IsCh || len(s.Chars) != len(first.Chars) {
				same = false
			}
		}
		if same {
			cs := make([]*Term, len(first.Chars))
			for k := range cs {
				r := outs[len(outs)-1].val.(StrV).Chars[k]
				for i := len(outs) - 2; i >= 0; i-- {
					r = tf.Ite(outs[i].cond, outs[i].val.(StrV).Chars[k], r)
				}
				cs[k] = r
			}
			return StrV{Chars: cs, IsCh: true}, true
		}
		r := outs[len(outs)-1].val.(StrV).Term(tf)
		for i := len(outs) - 2; i >= 0; i-- {
			r = tf.Ite(outs[i].cond, outs[i].val.(StrV).Term(tf), r)
		}
		return StrV{T: r}, true
	case TimeV:
		r := outs[len(outs)-1].val.(TimeV).Sec
		for i := len(outs) - 1; i >= 0; i-- {
			t, ok := outs[i].val.(TimeV)
			if !ok || t.Loc != first.Loc {
				return nil, false
			}
			if i < len(outs)-1 {
				r = tf.Ite(outs[i].cond, t.Sec, r)
			}
		}
		return TimeV{Sec: r, Loc: first.Loc}, true
	case Ptr:
		var target *Ptr
		var nils []*Term
		for _, o := range outs {
			p, ok := o.val.(Ptr)
			if !ok {
				return nil, false
			}
			if p.Obj == nil {
				nils = append(nils, o.cond)
				continue
			}
			if target == nil {
				q := p
				target = &q
			} else if target.Obj != p.Obj || !samePath(target.Path, p.Path) {
				return nil, false
			}
			if p.NilCond != nil {
				nils = append(nils, tf.And(o.cond, p.NilCond))
			}
		}
		if target == nil {
			return Ptr{}, true
		}
		if target.Obj.ID > e.mergeBase {
			return nil, false // pointer to an object allocated inside the merged call
		}
		nc := tf.Or(nils...)
		if nc.IsFalse() {
			return Ptr{Obj: target.Obj, Path: target.Path}, true
		}
		return Ptr{Obj: target.Obj, Path: target.Path, NilCond: nc}, true
	case TupleV:
		res := make(TupleV, len(first))
		for k := range first {
			sub := make([]mergeOutcome, len(outs))
			for i, o := range outs {
				tv, ok := o.val.(TupleV)
				if !ok || len(tv) != len(first) {
					return nil, false
				}
				sub[i] = mergeOutcome{o.cond, tv[k]}
			}
			v, ok := e.joinOutcomes(sub)
			if !ok {
				return nil, false
			}
			res[k] = v
		}
		return res, true
	}
	return nil, false
}
