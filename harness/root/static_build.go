//go:build verif

package gtfs

import (
	vr "github.com/jamespfennell/gtfs/internal/verifrt"
)

// ---- table builders for the static harnesses

func hCol(hdr, row []string, name string) string {
	for i, h := range hdr {
		if h == name {
			return row[i]
		}
	}
	return ""
}

var hAgencyHdr = []string{"agency_id", "agency_name", "agency_url", "agency_timezone"}

func hAgencyFile(rows ...[]string) vr.File {
	return vr.File{Name: "agency.txt", Header: hAgencyHdr, Rows: rows}
}

// a minimal concrete feed around the table under test
func hBase() map[string]vr.File {
	return map[string]vr.File{
		"agency.txt":     hAgencyFile([]string{"ag", "Agency", "http://a", "America/New_York"}),
		"routes.txt":     {Name: "routes.txt", Header: []string{"route_id", "agency_id", "route_type"}, Rows: [][]string{{"r1", "ag", "1"}}},
		"stops.txt":      {Name: "stops.txt", Header: []string{"stop_id", "stop_name"}, Rows: [][]string{{"s1", "Stop 1"}, {"s2", "Stop 2"}}},
		"calendar.txt":   {Name: "calendar.txt", Header: []string{"service_id", "monday", "tuesday", "wednesday", "thursday", "friday", "saturday", "sunday", "start_date", "end_date"}, Rows: [][]string{{"sv1", "1", "1", "1", "1", "1", "0", "0", "20240101", "20241231"}}},
		"trips.txt":      {Name: "trips.txt", Header: []string{"route_id", "service_id", "trip_id"}, Rows: [][]string{{"r1", "sv1", "t1"}}},
		"stop_times.txt": {Name: "stop_times.txt", Header: []string{"trip_id", "arrival_time", "departure_time", "stop_id", "stop_sequence"}, Rows: [][]string{{"t1", "08:00:00", "08:00:30", "s1", "1"}}},
	}
}

var hFileOrder = []string{"agency.txt", "routes.txt", "stops.txt", "transfers.txt", "calendar.txt", "calendar_dates.txt", "shapes.txt", "trips.txt", "frequencies.txt", "stop_times.txt"}

func hArchive(files map[string]vr.File) []byte {
	var fs []vr.File
	for _, n := range hFileOrder {
		if f, ok := files[n]; ok {
			fs = append(fs, f)
		}
	}
	return vr.Archive(fs)
}

func hParse(files map[string]vr.File, opts ParseStaticOptions) *Static {
	r, err := ParseStatic(hArchive(files), opts)
	vr.Assert("static.returns", err == nil && r != nil)
	if err != nil {
		return nil
	}
	return r
}
