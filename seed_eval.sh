#!/bin/bash
# usage: seed_eval.sh <seed-name> <demo-dir-rel> <test-run-regex> <prop> [race]
# Confirms a seeded change in its scratch worktree (tests pass with it; demo fails with it, passes without),
# then applies it to /repo, runs the property's quick check, and reverts /repo straight away.
set -u
name=$1; ddir=$2; rx=$3; prop=$4; race=${5:-}
wt=/tmp/wt_$name; sd=/tmp/seed_$name
export GOFLAGS=-mod=mod GOPROXY=off GOSUMDB=off GOTOOLCHAIN=local
out=/verif/seeded/$name; mkdir -p $out
cd $wt || exit 2
# normalise: worktree = HEAD + patch, no demo
git checkout -q -- . ; git clean -fdq
git apply $sd/patch.diff || { echo "patch does not apply"; exit 2; }
suite=$(go build ./... 2>&1 && go test -vet=off -count=1 ./... 2>&1 | grep -c "^FAIL\|^--- FAIL")
cp $sd/demo_test.go $ddir/zz_seed_demo_test.go
with=$(go test $race -vet=off -count=1 -run "$rx" ./$ddir/ 2>&1 | tail -3 | tr '\n' ' ')
git apply -R $sd/patch.diff
without=$(go test $race -vet=off -count=1 -run "$rx" ./$ddir/ 2>&1 | tail -3 | tr '\n' ' ')
rm -f $ddir/zz_seed_demo_test.go; git checkout -q -- .
echo "suite_failures_with_change=$suite"; echo "demo_with_change: $with"; echo "demo_without_change: $without"
# run the check against /repo with the change applied
cd /verif
git -C /repo apply $sd/patch.diff || { echo "patch does not apply to /repo"; exit 2; }
./bin/ssasym check $prop --tier quick > $out/check_output.txt 2>&1; rc=$?
git -C /repo checkout -- .
grep -c "^VIOLATION" $out/check_output.txt | sed 's/^/violations_reported=/'
echo "check_exit=$rc"; grep "^VIOLATION\|  harness=\|tier=quick" $out/check_output.txt | cut -c1-220 | head -8
cp $sd/patch.diff $sd/demo_test.go $out/; cp $sd/README.txt $out/README.agent.txt 2>/dev/null
python3 - "$name" "$prop" "$suite" "$with" "$without" "$rc" <<'PY'
import json,sys
name,prop,suite,with_,without,rc=sys.argv[1:7]
meta={"seed":name,"breaks_property":prop,"existing_suite_failures_with_change":int(suite),"demo_with_change":with_.strip(),"demo_without_change":without.strip(),
 "check_cmd":f"/verif/bin/ssasym check {prop} --tier quick","check_exit_with_change":int(rc),"caught":int(rc)==1,
 "ran":["go build ./... && go test -vet=off -count=1 ./... in a scratch worktree with the change","demo test with and without the change in that worktree","git -C /repo apply patch.diff; ssasym check; git -C /repo checkout -- ."]}
json.dump(meta,open(f"/verif/seeded/{name}/meta.json","w"),indent=1)
PY
