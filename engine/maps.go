package main

import (
	"go/types"
	"sync"

	"golang.org/x/tools/go/ssa"
)

var opaqueMu sync.Mutex

// mapFind returns the index of the entry whose key equals k on this path
// (forking on symbolic key equality), or -1.
func (e *Exec) mapFind(m *MapObj, k Value) int {
	for i, ek := range m.Keys {
		if e.decide(e.valEq(ek, k)) {
			return i
		}
	}
	return -1
}

func (e *Exec) mapSet(m *MapObj, k, v Value) {
	if e.curFoot != nil {
		e.curFoot.writeMap(m, e)
	}
	e.writes++
	if e.mergeDepth > 0 && m.ID <= e.mergeBase {
		e.mergeDirty = true
		e.end("unsupported", "map write inside merged call")
	}
	if i := e.mapFind(m, k); i >= 0 {
		vals := make([]Value, len(m.Vals))
		copy(vals, m.Vals)
		vals[i] = v
		m.Vals = vals
		return
	}
	m.Keys = append(append([]Value{}, m.Keys...), k)
	m.Vals = append(append([]Value{}, m.Vals...), v)
}

func (e *Exec) mapGet(m *MapObj, k Value) (Value, bool) {
	if e.curFoot != nil {
		e.curFoot.readMap(m)
	}
	if i := e.mapFind(m, k); i >= 0 {
		return m.Vals[i], true
	}
	return nil, false
}

func (e *Exec) mapDelete(m *MapObj, k Value) {
	if e.curFoot != nil {
		e.curFoot.writeMap(m, e)
	}
	e.writes++
	if i := e.mapFind(m, k); i >= 0 {
		m.Keys = append(append([]Value{}, m.Keys[:i]...), m.Keys[i+1:]...)
		m.Vals = append(append([]Value{}, m.Vals[:i]...), m.Vals[i+1:]...)
	}
}

func (e *Exec) lookup(fr *Frame, x *ssa.Lookup) Value {
	c := e.eval(fr, x.X)
	k := e.eval(fr, x.Index)
	switch m := c.(type) {
	case MapV:
		vt := x.X.Type().Underlying().(*types.Map).Elem()
		var v Value
		ok := false
		if m.M != nil {
			v, ok = e.mapGet(m.M, k)
		}
		if !ok {
			v = e.zero(vt)
		}
		if x.CommaOk {
			return TupleV{v, e.tf.Bool(ok)}
		}
		return v
	case StrV:
		return e.strIndex(fr, x, m, k.(*Term))
	}
	e.unsupported("lookup on %T", c)
	return nil
}

func (e *Exec) rangeStart(fr *Frame, x *ssa.Range, c Value) Value {
	switch m := c.(type) {
	case MapV:
		it := &mapIter{}
		if m.M != nil {
			if e.curFoot != nil {
				e.curFoot.readMap(m.M)
			}
			it.m = m.M
			it.keys = e.orderKeys(fr, x, m.M)
		}
		return it
	case StrV:
		if !m.IsCh {
			e.unsupported("range over symbolic-length string in %s", fr.fn)
		}
		s := m
		return &mapIter{str: &s}
	}
	e.unsupported("range over %T", c)
	return nil
}

// orderKeys picks the iteration order of a map range: insertion order, or —
// when the harness asked for it — any permutation (a fork per choice).
func (e *Exec) orderKeys(fr *Frame, x *ssa.Range, m *MapObj) []Value {
	keys := append([]Value{}, m.Keys...)
	n := len(keys)
	if e.mapOrder != "all" || n < 2 || isHarnessFunc(fr.fn) {
		return keys
	}
	e.pathAuxInc("maprange")
	id := e.pathAux["maprange"].(int)
	name := shortFn(fr.fn) + "#" + itoa(id)
	perm := make([]int, 0, n)
	rest := make([]int, n)
	for i := range rest {
		rest[i] = i
	}
	for len(rest) > 1 {
		pick := len(rest) - 1
		for j := 0; j < len(rest)-1; j++ {
			b := e.tf.Var("maporder."+name+"."+itoa(len(perm))+"."+itoa(j), SBool, nil, nil)
			if e.decide(b) {
				pick = j
				break
			}
		}
		perm = append(perm, rest[pick])
		rest = append(rest[:pick], rest[pick+1:]...)
	}
	perm = append(perm, rest[0])
	e.mapPerms[name] = perm
	out := make([]Value, n)
	for i, p := range perm {
		out[i] = keys[p]
	}
	return out
}

func (e *Exec) pathAuxInc(k string) {
	n, _ := e.pathAux[k].(int)
	e.pathAux[k] = n + 1
}

func (e *Exec) rangeNext(fr *Frame, x *ssa.Next, it *mapIter) Value {
	tf := e.tf
	if it.str != nil {
		if it.i >= len(it.str.Chars) {
			return TupleV{tf.Bool(false), tf.Int(0), tf.Int(0)}
		}
		i := it.i
		it.i++
		return TupleV{tf.Bool(true), tf.Int(int64(i)), it.str.Chars[i]}
	}
	for it.m != nil && it.i < len(it.keys) {
		k := it.keys[it.i]
		it.i++
		// skip entries deleted since the range began (identity of key value)
		for j, ek := range it.m.Keys {
			if sameKey(ek, k) {
				return TupleV{tf.Bool(true), k, it.m.Vals[j]}
			}
		}
	}
	var kz, vz Value
	if it.m != nil {
		kz, vz = e.zero(it.m.KT), e.zero(it.m.VT)
	}
	return TupleV{tf.Bool(false), kz, vz}
}

func sameKey(a, b Value) bool {
	switch x := a.(type) {
	case *Term:
		y, ok := b.(*Term)
		return ok && x == y
	case StrV:
		y, ok := b.(StrV)
		if !ok || x.IsCh != y.IsCh {
			return false
		}
		if !x.IsCh {
			return x.T == y.T
		}
		if len(x.Chars) != len(y.Chars) {
			return false
		}
		for i := range x.Chars {
			if x.Chars[i] != y.Chars[i] {
				return false
			}
		}
		return true
	case StructV:
		y, ok := b.(StructV)
		if !ok || len(x.F) != len(y.F) {
			return false
		}
		for i := range x.F {
			if !sameKey(x.F[i], y.F[i]) {
				return false
			}
		}
		return true
	case TimeV:
		y, ok := b.(TimeV)
		return ok && x.Sec == y.Sec && x.Loc == y.Loc
	case Ptr:
		y, ok := b.(Ptr)
		return ok && x.Obj == y.Obj && samePath(x.Path, y.Path)
	case IfaceV:
		y, ok := b.(IfaceV)
		return ok && x.T == y.T && sameKey(x.V, y.V)
	}
	return false
}

func itoa(i int) string {
	if i == 0 {
		return "0"
	}
	neg := i < 0
	if neg {
		i = -i
	}
	var b []byte
	for i > 0 {
		b = append([]byte{byte('0' + i%10)}, b...)
		i /= 10
	}
	if neg {
		return "-" + string(b)
	}
	return string(b)
}
