//go:build verif

package gtfs

import (
	"time"

	vr "github.com/jamespfennell/gtfs/internal/verifrt"
	gtfsrt "github.com/jamespfennell/gtfs/proto"
)

func init() {
	vr.Register("Harness_C12_selectors", Harness_C12_selectors)
	vr.Register("Harness_C12_routetype", Harness_C12_routetype)
	vr.Register("Harness_C12_two_alerts", Harness_C12_two_alerts)
}

type hSel struct {
	sel          *gtfsrt.EntitySelector
	hasTrip      bool
	tripID       TripID // expected decoded descriptor
	identifiable bool
	informs      bool
	want         AlertInformedEntity
	fbRoute      string // fallback: route named only by the descriptor ("" = none)
	fbDir        DirectionID
}

func hm_KnownRouteType(x int32) RouteType {
	switch x {
	case 0, 1, 2, 3, 4, 5, 6, 7, 11, 12:
		return RouteType(x)
	}
	return RouteType_Unknown
}

// hSelector builds one symbolic entity selector and, from the property
// statement alone, what it must turn into.
func hSelector(tag string, zone *time.Location) hSel {
	s := hSel{sel: &gtfsrt.EntitySelector{
		AgencyId: hOptStr(tag + ".agency_id"),
		RouteId:  hOptStr(tag + ".route_id"),
		StopId:   hOptStr(tag + ".stop_id"),
	}}
	s.want = AlertInformedEntity{AgencyID: s.sel.AgencyId, RouteID: s.sel.RouteId, StopID: s.sel.StopId, RouteType: RouteType_Unknown}
	rt := vr.I32(tag + ".route_type")
	s.sel.RouteType = vr.MaybeNil(tag+".route_type.nil", &rt)
	s.want.RouteType = vr.Ite(s.sel.RouteType == nil, RouteType_Unknown, hm_KnownRouteType(rt))
	dir := uint32(vr.Int(tag+".direction_id", 0, 1))
	s.sel.DirectionId = vr.MaybeNil(tag+".direction_id.nil", &dir)
	s.want.DirectionID = vr.Ite(s.sel.DirectionId == nil, DirectionID_Unspecified, vr.Ite(dir == 0, DirectionID_False, DirectionID_True))
	s.hasTrip = vr.Bool(tag + ".has_trip")
	if s.hasTrip {
		d := hTripDescriptorM(tag + ".trip")
		s.sel.Trip = d.d
		s.tripID = d.wantID
		s.identifiable = vr.Or(d.wantID.ID != "", vr.And(d.wantID.RouteID != "", d.wantID.DirectionID != DirectionID_Unspecified, d.wantID.HasStartTime, d.wantID.HasStartDate))
	}
	s.informs = vr.Or(s.sel.AgencyId != nil, s.sel.RouteId != nil, s.want.RouteType != RouteType_Unknown, s.sel.StopId != nil, s.identifiable)
	if s.hasTrip && !s.identifiable && s.tripID.RouteID != "" {
		s.fbRoute = s.tripID.RouteID
		s.fbDir = s.tripID.DirectionID
	}
	return s
}

// An alert with K symbolic selectors; the parsed informed entities are
// compared with a reference written from the statement.
func Harness_C12_selectors() {
	K := vr.Param("K", 1)
	_, zone := hZone()
	a := &gtfsrt.Alert{}
	sels := make([]hSel, K)
	for k := 0; k < K; k++ {
		sels[k] = hSelector(vr.T("sel", k), zone)
		a.InformedEntity = append(a.InformedEntity, sels[k].sel)
	}
	id := "alert"
	msg := &gtfsrt.FeedMessage{Header: hHeader("header"), Entity: []*gtfsrt.FeedEntity{{Id: &id, Alert: a}}}
	r, err := ParseRealtime(vr.Marshal(msg), &ParseRealtimeOptions{})
	vr.Assert("C12.returns", err == nil && r != nil && len(r.Alerts) == 1)
	if err != nil || r == nil || len(r.Alerts) != 1 {
		return
	}
	got := r.Alerts[0].InformedEntities

	// every entity informs something; trip ids only when identifying; such trips are in Trips
	for i := range got {
		g := got[i]
		vr.Assert("C12.informs", vr.Or(g.AgencyID != nil, g.RouteID != nil, g.RouteType != RouteType_Unknown, g.StopID != nil, g.TripID != nil))
		if g.TripID != nil {
			vr.Assert("C12.tripid_only_if_identifying", vr.Or(g.TripID.ID != "", vr.And(g.TripID.RouteID != "", g.TripID.DirectionID != DirectionID_Unspecified, g.TripID.HasStartTime, g.TripID.HasStartDate)))
			_, n := hFindTrip(r.Trips, *g.TripID)
			vr.Assert("C12.in_trips", n == 1)
		}
	}
	// explicit entities, in order
	var explicit []AlertInformedEntity
	for k := 0; k < K; k++ {
		if !sels[k].informs {
			continue
		}
		w := sels[k].want
		if sels[k].identifiable {
			tid := sels[k].tripID
			w.TripID = &tid
		}
		explicit = append(explicit, w)
	}
	vr.Assert("C12.explicit_count", len(got) >= len(explicit))
	if len(got) < len(explicit) {
		return
	}
	for i := range explicit {
		vr.Assert("C12.explicit_in_order", vr.DeepEq(got[i], explicit[i]))
	}
	// fallback routes: named only through non-identifying descriptors, unless informed explicitly
	type fb struct {
		route   string
		f, t    bool
		expired bool
	}
	var fbs []fb
	for k := 0; k < K; k++ {
		s := sels[k]
		if s.fbRoute == "" {
			continue
		}
		explicitRoute := false
		for j := 0; j < K; j++ {
			if sels[j].sel.RouteId != nil && *sels[j].sel.RouteId == s.fbRoute {
				explicitRoute = true
			}
		}
		if explicitRoute {
			continue
		}
		merged := false
		for i := range fbs {
			if fbs[i].route == s.fbRoute {
				merged = true
				fbs[i].f = fbs[i].f || s.fbDir == DirectionID_False || s.fbDir == DirectionID_Unspecified
				fbs[i].t = fbs[i].t || s.fbDir == DirectionID_True || s.fbDir == DirectionID_Unspecified
			}
		}
		if !merged {
			fbs = append(fbs, fb{route: s.fbRoute, f: s.fbDir != DirectionID_True, t: s.fbDir != DirectionID_False})
		}
	}
	rest := got[len(explicit):]
	vr.Assert("C12.fallback.count", len(rest) == len(fbs))
	if len(rest) != len(fbs) {
		return
	}
	for _, f := range fbs {
		route := f.route
		w := AlertInformedEntity{RouteID: &route, RouteType: RouteType_Unknown}
		if f.f && !f.t {
			w.DirectionID = DirectionID_False
		} else if f.t && !f.f {
			w.DirectionID = DirectionID_True
		}
		var any []bool
		for i := range rest {
			any = append(any, vr.DeepEq(rest[i], w))
		}
		vr.Assert("C12.fallback", vr.Or(any...))
	}
}

// The realtime route-type decoder over every int32.
func Harness_C12_routetype() {
	x := vr.I32("route_type")
	got := parseRouteType_GTFSRealtime(&x)
	vr.Assert("C12.route_type.decode", got == hm_KnownRouteType(x))
	vr.Assert("C12.route_type.absent", parseRouteType_GTFSRealtime(nil) == RouteType_Unknown)
}

// Two alerts in one feed: what the second alert informs is what it informs when it is alone
// (nothing learnt from the first alert suppresses or adds scope).
func Harness_C12_two_alerts() {
	_, zone := hZone()
	mk := func(tag string) *gtfsrt.Alert {
		a := &gtfsrt.Alert{}
		// route-only selectors and route-only trip descriptors over two symbolic routes
		for k := 0; k < 2; k++ {
			r := vr.OneOf(vr.T(tag, ".sel", k, ".route"), "RA", "RB")
			switch hConcretize(vr.Int(vr.T(tag, ".sel", k, ".shape"), 0, 2), 0, 2) {
			case 0:
				a.InformedEntity = append(a.InformedEntity, &gtfsrt.EntitySelector{RouteId: &r})
			case 1:
				a.InformedEntity = append(a.InformedEntity, &gtfsrt.EntitySelector{Trip: &gtfsrt.TripDescriptor{RouteId: &r}})
			default:
				a.InformedEntity = append(a.InformedEntity, &gtfsrt.EntitySelector{Trip: &gtfsrt.TripDescriptor{RouteId: &r, DirectionId: vr.P(uint32(vr.Int(vr.T(tag, ".sel", k, ".dir"), 0, 1)))}})
			}
		}
		return a
	}
	_ = zone
	ida, idb := "a", "b"
	A, B := mk("alert.a"), mk("alert.b")
	both, err1 := ParseRealtime(vr.Marshal(&gtfsrt.FeedMessage{Header: hHeader("header"), Entity: []*gtfsrt.FeedEntity{{Id: &ida, Alert: A}, {Id: &idb, Alert: B}}}), &ParseRealtimeOptions{})
	alone, err2 := ParseRealtime(vr.Marshal(&gtfsrt.FeedMessage{Header: hHeader("header"), Entity: []*gtfsrt.FeedEntity{{Id: &idb, Alert: B}}}), &ParseRealtimeOptions{})
	vr.Assert("C12.returns", err1 == nil && err2 == nil && both != nil && alone != nil)
	if both == nil || alone == nil || len(both.Alerts) != 2 || len(alone.Alerts) != 1 {
		vr.Assert("C12.two_alerts.count", false)
		return
	}
	vr.Assert("C12.two_alerts.independent", vr.DeepEq(both.Alerts[1].InformedEntities, alone.Alerts[0].InformedEntities))
}
