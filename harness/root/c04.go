//go:build verif

package gtfs

import (
	vr "github.com/jamespfennell/gtfs/internal/verifrt"
	gtfsrt "github.com/jamespfennell/gtfs/proto"
)

func init() {
	vr.Register("Harness_C04_links", Harness_C04_links)
	vr.Register("Harness_C04_nolink", Harness_C04_nolink)
	vr.Register("Harness_C04_two_pairs", Harness_C04_two_pairs)
}

func hFindVehicle(vs []Vehicle, id *VehicleID) int {
	idx := -1
	for i := range vs {
		if vr.DeepEq(vs[i].ID, id) {
			idx = i
		}
	}
	return idx
}

// A trip and a vehicle associated by a trip update carrying a vehicle
// descriptor (HOW=0), by a vehicle position carrying a trip descriptor
// (HOW=1), by both (HOW=2, either entity order), or by one of them while the
// other party also has an entity of its own that does not mention it (HOW=3, 4); the vehicle has an id, a
// label only, a licence plate only, all three, or (HOW=1 only) no descriptor.
func Harness_C04_links() {
	how := vr.Param("HOW", 0)
	_, zone := hZone()
	maxKind := 4
	minKind := 1
	if how == 1 || how == 4 {
		minKind = 0
	}
	vkind := vr.Int("vehicle.kind", minKind, maxKind)
	vd, wantVID := hVehicleDescriptor("vehicle", vkind)
	desc := hTripDescriptor("trip", zone, vr.Param("KINDS", 1))
	tripDesc2 := *desc.d // the same descriptor, as a second message object
	var ents []*gtfsrt.FeedEntity
	idTU, idVP := "tu", "vp"
	sid := vr.Str("tu.stop")
	tu := &gtfsrt.FeedEntity{Id: &idTU, TripUpdate: &gtfsrt.TripUpdate{Trip: desc.d, Vehicle: vd,
		StopTimeUpdate: []*gtfsrt.TripUpdate_StopTimeUpdate{{StopId: &sid}}}}
	var vd2 *gtfsrt.VehicleDescriptor
	if vd != nil {
		c := *vd
		vd2 = &c
	}
	vp := &gtfsrt.FeedEntity{Id: &idVP, Vehicle: &gtfsrt.VehiclePosition{Trip: &tripDesc2, Vehicle: vd2, StopId: hOptStr("vp.stop_id")}}
	switch how {
	case 0:
		ents = []*gtfsrt.FeedEntity{tu}
	case 3: // the association comes from the trip update only; the vehicle also has a position entity without trip
		vp.Vehicle.Trip = nil
		if vr.Bool("vp_first") {
			ents = []*gtfsrt.FeedEntity{vp, tu}
		} else {
			ents = []*gtfsrt.FeedEntity{tu, vp}
		}
	case 4: // the association comes from the vehicle position only; the trip also has an update without vehicle
		tu.TripUpdate.Vehicle = nil
		if vr.Bool("vp_first") {
			ents = []*gtfsrt.FeedEntity{vp, tu}
		} else {
			ents = []*gtfsrt.FeedEntity{tu, vp}
		}
	case 1:
		ents = []*gtfsrt.FeedEntity{vp}
	default:
		if vr.Bool("vp_first") {
			ents = []*gtfsrt.FeedEntity{vp, tu}
		} else {
			ents = []*gtfsrt.FeedEntity{tu, vp}
		}
	}
	msg := &gtfsrt.FeedMessage{Header: hHeader("header"), Entity: ents}
	r, err := ParseRealtime(vr.Marshal(msg), &ParseRealtimeOptions{})
	vr.Assert("C04.returns", err == nil && r != nil)
	if err != nil || r == nil {
		return
	}
	vr.Assert("C04.count", len(r.Trips) == 1 && len(r.Vehicles) == 1)
	if len(r.Trips) != 1 || len(r.Vehicles) != 1 {
		return
	}
	t := &r.Trips[0]
	v := &r.Vehicles[0]
	vr.Assert("C04.ids", vr.And(vr.DeepEq(t.ID, desc.wantID), vr.DeepEq(v.ID, wantVID)))
	vr.Assert("C04.link.trip2vehicle", t.Vehicle != nil)
	vr.Assert("C04.link.vehicle2trip", v.Trip != nil)
	if t.Vehicle != nil {
		vr.Assert("C04.content.vehicle", vr.DeepEq(*t.Vehicle, *v))
		vr.Assert("C04.back.vehicle2trip", t.Vehicle.Trip != nil)
		if t.Vehicle.Trip != nil {
			vr.Assert("C04.back.content", vr.DeepEq(*t.Vehicle.Trip, *t))
		}
	}
	if v.Trip != nil {
		vr.Assert("C04.content.trip", vr.DeepEq(*v.Trip, *t))
		vr.Assert("C04.back.trip2vehicle", v.Trip.Vehicle != nil)
		if v.Trip.Vehicle != nil {
			vr.Assert("C04.back.content", vr.DeepEq(*v.Trip.Vehicle, *v))
		}
	}
}

// No association in the feed: a trip update without vehicle descriptor and a
// vehicle position without trip descriptor, in either order.
func Harness_C04_nolink() {
	_, zone := hZone()
	desc := hTripDescriptor("trip", zone, 0)
	vd, _ := hVehicleDescriptor("vehicle", vr.Int("vehicle.kind", 0, 2))
	idTU, idVP := "tu", "vp"
	tu := &gtfsrt.FeedEntity{Id: &idTU, TripUpdate: &gtfsrt.TripUpdate{Trip: desc.d}}
	vp := &gtfsrt.FeedEntity{Id: &idVP, Vehicle: &gtfsrt.VehiclePosition{Vehicle: vd}}
	ents := []*gtfsrt.FeedEntity{tu, vp}
	if vr.Bool("vp_first") {
		ents = []*gtfsrt.FeedEntity{vp, tu}
	}
	msg := &gtfsrt.FeedMessage{Header: hHeader("header"), Entity: ents}
	r, err := ParseRealtime(vr.Marshal(msg), &ParseRealtimeOptions{})
	vr.Assert("C04.returns", err == nil && r != nil)
	if err != nil || r == nil {
		return
	}
	vr.Assert("C04.count", len(r.Trips) == 1 && len(r.Vehicles) == 1)
	if len(r.Trips) != 1 || len(r.Vehicles) != 1 {
		return
	}
	vr.Assert("C04.nolink", r.Trips[0].Vehicle == nil && r.Vehicles[0].Trip == nil)
}

// Two associations in one feed - (trip A, vehicle A) and (trip B, vehicle B) -
// with both vehicles named the same way (id, label only or licence plate
// only) by distinct values, each association expressed by a trip update or by
// a vehicle position, in either entity order: two trips, two vehicles, and each
// pair's links lead to each other.
func Harness_C04_two_pairs() {
	kind := hConcretize(vr.Int("vehicle.kind", 0, 3), 0, 3) // 0: both vehicles without any descriptor (vehicle positions only)
	var vds [2]*gtfsrt.VehicleDescriptor
	var want [2]*VehicleID
	var tids [2]string
	for i := 0; i < 2; i++ {
		vds[i], want[i] = hVehicleDescriptor(vr.T("vehicle", i), kind)
		tids[i] = vr.Str(vr.T("trip", i, ".id"))
	}
	vr.Assume(tids[0] != "" && tids[1] != "" && tids[0] != tids[1])
	if kind != 0 {
		vr.Assume(want[0].ID != want[1].ID || want[0].Label != want[1].Label || want[0].LicensePlate != want[1].LicensePlate)
	}
	var ents []*gtfsrt.FeedEntity
	for i := 0; i < 2; i++ {
		id := vr.T("e", i)
		tid := tids[i]
		td := &gtfsrt.TripDescriptor{TripId: &tid}
		if kind == 0 || vr.Bool(vr.T("pair", i, ".by_vehicle_position")) {
			ents = append(ents, &gtfsrt.FeedEntity{Id: &id, Vehicle: &gtfsrt.VehiclePosition{Trip: td, Vehicle: vds[i]}})
		} else {
			ents = append(ents, &gtfsrt.FeedEntity{Id: &id, TripUpdate: &gtfsrt.TripUpdate{Trip: td, Vehicle: vds[i]}})
		}
	}
	if vr.Bool("b_first") {
		ents[0], ents[1] = ents[1], ents[0]
	}
	r, err := ParseRealtime(vr.Marshal(&gtfsrt.FeedMessage{Header: hHeader("header"), Entity: ents}), &ParseRealtimeOptions{})
	vr.Assert("C04.returns", err == nil && r != nil)
	if err != nil || r == nil {
		return
	}
	vr.Assert("C04.count", len(r.Trips) == 2 && len(r.Vehicles) == 2)
	if len(r.Trips) != 2 || len(r.Vehicles) != 2 {
		return
	}
	for i := 0; i < 2; i++ {
		for k := range r.Trips {
			t := &r.Trips[k]
			if t.ID.ID != tids[i] {
				continue
			}
			vr.Assert("C04.link.trip2vehicle", t.Vehicle != nil)
			if t.Vehicle == nil {
				continue
			}
			vr.Assert("C04.pair.vehicle", vr.DeepEq(t.Vehicle.ID, want[i]))
			vr.Assert("C04.back.vehicle2trip", t.Vehicle.Trip != nil && t.Vehicle.Trip.ID.ID == tids[i])
			if kind == 0 {
				// anonymous vehicles: the listed vehicle that points at this trip is the one the trip points at
				n := 0
				for v := range r.Vehicles {
					if r.Vehicles[v].Trip != nil && r.Vehicles[v].Trip.ID.ID == tids[i] {
						n++
						vr.Assert("C04.content.vehicle", vr.DeepEq(*t.Vehicle, r.Vehicles[v]))
					}
				}
				vr.Assert("C04.pair.listed", n == 1)
				continue
			}
			at := hFindVehicle(r.Vehicles, want[i])
			vr.Assert("C04.pair.listed", at >= 0)
			if at >= 0 {
				vr.Assert("C04.content.vehicle", vr.DeepEq(*t.Vehicle, r.Vehicles[at]))
			}
		}
	}
}
