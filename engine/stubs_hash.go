package main

// Hash streams: binary.Write into the hasher's bytes.Buffer and writes into
// the harness sink are recorded as chunk lists — Num(width, int term) and
// Str(string term) — instead of bytes. vr.StreamEq decides equality of two
// streams by lock-step alignment (equal-width numbers give integer
// equalities; strings are aligned only when the solver entails equal
// lengths from the path condition and the equalities collected so far); when
// alignment is not entailed — exactly the case of an ambiguous encoding — the
// string lengths are case-split and the streams are compared byte by byte.

import (
	"fmt"
	"go/types"
	"math/big"

	"golang.org/x/tools/go/ssa"
)

type chunk struct {
	blob  *protoBlob // a whole file's content (directory source)
	num   bool
	width int
	t     *Term // Int (num) or Str term
}

type chunksV struct{ cs []chunk } // value of buffer.Bytes()

func (e *Exec) bufKey(p Ptr) string { return fmt.Sprintf("buf:%d%v", p.Obj.ID, p.Path) }

// bufTouch records an access to a bytes.Buffer (whose content lives outside the heap model) in the current footprint.
func (e *Exec) bufTouch(p Ptr, write bool) {
	if e.curFoot == nil || p.Obj == nil {
		return
	}
	if write {
		e.curFoot.write(Ptr{Obj: p.Obj, Path: p.Path}, e)
	} else {
		e.curFoot.read(Ptr{Obj: p.Obj, Path: p.Path})
	}
}

func (e *Exec) bufGet(p Ptr) []chunk {
	cs, _ := e.pathAux[e.bufKey(p)].([]chunk)
	return cs
}

func fixedWidthOf(t types.Type) (int, bool) {
	b, ok := t.Underlying().(*types.Basic)
	if !ok {
		return 0, false
	}
	switch b.Kind() {
	case types.Bool, types.Int8, types.Uint8:
		return 1, true
	case types.Int16, types.Uint16:
		return 2, true
	case types.Int32, types.Uint32, types.Float32:
		return 4, true
	case types.Int64, types.Uint64, types.Float64:
		return 8, true
	}
	return 0, false // int, uint, string, pointers...: binary.Write fails
}

// byteOf is byte i (little endian) of a width-byte two's complement number.
func (e *Exec) byteOf(x *Term, width, i int) *Term {
	if x.Op == "int" {
		m := new(big.Int).Lsh(bi(1), uint(8*width))
		u := new(big.Int).Mod(x.I, m)
		u.Rsh(u, uint(8*i))
		return e.tf.IntB(u.And(u, bi(255)))
	}
	return e.byteVars(x, width)[i]
}

// byteVars introduces the little-endian bytes of a width-byte two's
// complement number as fresh variables defined by a linear constraint
// (x + s*2^(8w) = sum b_i*256^i, s in {0,1}); this is far easier for the
// solver than div/mod chains.
func (e *Exec) byteVars(x *Term, width int) []*Term {
	key := fmt.Sprintf("bytes:%d:%d", x.id, width)
	if bs, ok := e.pathAux[key].([]*Term); ok {
		return bs
	}
	tf := e.tf
	bs := make([]*Term, width)
	sum := tf.Int(0)
	for i := 0; i < width; i++ {
		bs[i] = tf.Var(fmt.Sprintf("$byte.%d.%d.%d", x.id, width, i), SInt, bi(0), bi(255))
		sum = tf.Add(sum, tf.Mul(bs[i], tf.IntB(new(big.Int).Lsh(bi(1), uint(8*i)))))
	}
	sign := tf.Var(fmt.Sprintf("$sign.%d.%d", x.id, width), SInt, bi(0), bi(1))
	m := new(big.Int).Lsh(bi(1), uint(8*width))
	var cs []*Term
	for _, b := range append(append([]*Term{}, bs...), sign) {
		cs = append(cs, tf.mk(&Term{Op: "<=", Sort: SBool, Args: []*Term{tf.Int(0), b}}), tf.mk(&Term{Op: "<=", Sort: SBool, Args: []*Term{b, tf.IntB(b.Hi)}}))
	}
	cs = append(cs, tf.Eq(tf.Add(x, tf.Mul(sign, tf.IntB(m))), sum))
	cs = append(cs, tf.Eq(tf.Eq(sign, tf.Int(1)), tf.Lt(x, tf.Int(0))))
	e.assumeFresh(tf.And(cs...))
	e.pathAux[key] = bs
	return bs
}

func (e *Exec) chunkLen(c chunk) *Term {
	if c.num {
		return e.tf.Int(int64(c.width))
	}
	return e.tf.StrLen(c.t)
}

// reduce simplifies t under the literals already decided on this path.
func (e *Exec) reduce(t *Term) *Term {
	if v, ok := e.known[t.id]; ok && t.Sort == SBool {
		return e.tf.Bool(v)
	}
	switch t.Op {
	case "ite":
		c := e.reduce(t.Args[0])
		if c.IsTrue() {
			return e.reduce(t.Args[1])
		}
		if c.IsFalse() {
			return e.reduce(t.Args[2])
		}
	case "not":
		return e.tf.Not(e.reduce(t.Args[0]))
	case "and":
		xs := make([]*Term, len(t.Args))
		for i, a := range t.Args {
			xs[i] = e.reduce(a)
		}
		return e.tf.And(xs...)
	case "or":
		xs := make([]*Term, len(t.Args))
		for i, a := range t.Args {
			xs[i] = e.reduce(a)
		}
		return e.tf.Or(xs...)
	}
	return t
}

// streamEq builds a term equivalent to "the two byte streams are equal".
func (e *Exec) streamEq(a, b []chunk) *Term {
	tf := e.tf
	var conj []*Term
	i, j := 0, 0
	for i < len(a) && j < len(b) {
		x, y := a[i], b[j]
		if x.num && y.num && x.width == y.width {
			c := tf.Eq(e.reduce(x.t), e.reduce(y.t))
			if c.IsFalse() {
				return c
			}
			conj = append(conj, c)
			i++
			j++
			continue
		}
		if !x.num && !y.num {
			lenEq := tf.Eq(tf.StrLen(x.t), tf.StrLen(y.t))
			entailed := lenEq.IsTrue()
			if !entailed && !lenEq.IsFalse() {
				// is |x| = |y| entailed by the path and the equalities so far?
				e.streamQueries++
				entailed = e.sol.CheckWith(append(append([]*Term{}, conj...), tf.Not(lenEq))...) == Unsat
			}
			if entailed {
				c := tf.Eq(x.t, y.t)
				if c.IsFalse() {
					return c
				}
				conj = append(conj, c)
				i++
				j++
				continue
			}
		}
		break
	}
	if i == len(a) && j == len(b) {
		return tf.And(conj...)
	}
	// not aligned (an ambiguous encoding): exact lazy byte-wise comparison,
	// case-splitting string lengths as they are needed (unequal lengths first)
	e.streamFallbacks++
	for _, c := range conj {
		if !e.decide(c) {
			return tf.Bool(false)
		}
	}
	return tf.Bool(e.alignLazy(a[i:], b[j:]))
}

type piece struct {
	b *Term // a byte
	s *Term // or a string of not yet fixed length
}

func (e *Exec) toPieces(cs []chunk) []piece {
	var out []piece
	for _, c := range cs {
		if c.num {
			for k := 0; k < c.width; k++ {
				out = append(out, piece{b: e.byteOf(e.reduce(c.t), c.width, k)})
			}
		} else if n, ok := constInt(e.tf.StrLen(c.t)); ok {
			for k := 0; k < n; k++ {
				out = append(out, piece{b: e.tf.CodeAt(c.t, e.tf.Int(int64(k)))})
			}
		} else {
			out = append(out, piece{s: c.t})
		}
	}
	return out
}

func (e *Exec) strMax() int {
	maxLen := 4
	fmt.Sscan(e.cfg["strlen"], &maxLen)
	return maxLen
}

func (e *Exec) fixLen(s *Term, order []int) int {
	for k, l := range order {
		if k == len(order)-1 || e.decide(e.tf.Eq(e.tf.StrLen(s), e.tf.Int(int64(l)))) {
			return l
		}
	}
	return 0
}

func (e *Exec) expand(s *Term, n int) []piece {
	out := make([]piece, n)
	for k := range out {
		out[k] = piece{b: e.tf.CodeAt(s, e.tf.Int(int64(k)))}
	}
	return out
}

// alignLazy decides on this path whether the two piece streams are equal,
// forking on string lengths and on byte equalities (a false byte equality
// ends the comparison: the streams differ on that path).
func (e *Exec) alignLazy(ca, cb []chunk) bool {
	a, b := e.toPieces(ca), e.toPieces(cb)
	start := e.decs
	budget := 60
	fmt.Sscan(e.cfg["lazybudget"], &budget)
	m := e.strMax()
	asc := make([]int, m+1)
	for k := range asc {
		asc[k] = k
	}
	for len(a) > 0 || len(b) > 0 {
		if e.decs-start > budget {
			e.Inconclusive = append(e.Inconclusive, e.harness+": byte-wise stream comparison exceeded its decision budget on a path (treated as unequal, no verdict)")
			return false
		}
		if len(a) > 0 && a[0].s != nil && len(b) > 0 && b[0].s != nil {
			// two strings of unknown length: try unequal lengths first
			la, lb := -1, -1
			for x := 0; x <= m && la < 0; x++ {
				for y := 0; y <= m && la < 0; y++ {
					if x != y && e.decide(e.tf.And(e.tf.Eq(e.tf.StrLen(a[0].s), e.tf.Int(int64(x))), e.tf.Eq(e.tf.StrLen(b[0].s), e.tf.Int(int64(y))))) {
						la, lb = x, y
					}
				}
			}
			if la < 0 {
				la = e.fixLen(a[0].s, asc)
				lb = la
				if !e.decide(e.tf.Eq(e.tf.StrLen(b[0].s), e.tf.Int(int64(lb)))) {
					lb = e.fixLen(b[0].s, asc)
				}
			}
			a = append(e.expand(a[0].s, la), a[1:]...)
			b = append(e.expand(b[0].s, lb), b[1:]...)
			continue
		}
		if len(a) > 0 && a[0].s != nil {
			a = append(e.expand(a[0].s, e.fixLen(a[0].s, asc)), a[1:]...)
			continue
		}
		if len(b) > 0 && b[0].s != nil {
			b = append(e.expand(b[0].s, e.fixLen(b[0].s, asc)), b[1:]...)
			continue
		}
		if len(a) == 0 || len(b) == 0 {
			return false // one stream has a byte left, the other is exhausted
		}
		if !e.decide(e.tf.Eq(a[0].b, b[0].b)) {
			return false
		}
		a, b = a[1:], b[1:]
	}
	return true
}

// flatten turns chunks into a concrete-length list of byte terms, forking on string lengths.
func (e *Exec) flatten(cs []chunk) []*Term {
	tf := e.tf
	var out []*Term
	for _, c := range cs {
		if c.num {
			for k := 0; k < c.width; k++ {
				out = append(out, e.byteOf(c.t, c.width, k))
			}
			continue
		}
		n := -1
		if l, ok := constInt(tf.StrLen(c.t)); ok {
			n = l
		} else {
			maxLen := 4
			fmt.Sscan(e.cfg["strlen"], &maxLen)
			for l := 0; l <= maxLen; l++ {
				if l == maxLen || e.decide(tf.Eq(tf.StrLen(c.t), tf.Int(int64(l)))) {
					n = l
					break
				}
			}
		}
		for k := 0; k < n; k++ {
			out = append(out, tf.CodeAt(c.t, tf.Int(int64(k))))
		}
	}
	return out
}

func (e *Exec) sinkKey(p Ptr) string { return fmt.Sprintf("sink:%d%v", p.Obj.ID, p.Path) }

func init() {
	stubs["encoding/binary.Write"] = func(e *Exec, fr *Frame, fn *ssa.Function, a []Value) Value {
		w := a[0].(IfaceV)
		data := a[2].(IfaceV)
		bp, ok := w.V.(Ptr)
		if !ok || typeKey(w.T) != "*bytes.Buffer" {
			e.unsupported("binary.Write into %s", typeKey(w.T))
		}
		width, ok := fixedWidthOf(data.T)
		if !ok {
			return e.newError("binary.Write: some values are not fixed-sized")
		}
		t := data.V.(*Term)
		if t.Sort == SBool {
			t = e.tf.Ite(t, e.tf.Int(1), e.tf.Int(0))
		}
		e.writes++
		e.bufTouch(bp, true)
		e.pathAux[e.bufKey(bp)] = append(append([]chunk{}, e.bufGet(bp)...), chunk{num: true, width: width, t: t})
		return IfaceV{}
	}
	stubs["(*bytes.Buffer).Bytes"] = func(e *Exec, fr *Frame, fn *ssa.Function, a []Value) Value {
		e.bufTouch(a[0].(Ptr), false)
		return chunksV{cs: e.bufGet(a[0].(Ptr))}
	}
	stubs["(*bytes.Buffer).Reset"] = func(e *Exec, fr *Frame, fn *ssa.Function, a []Value) Value {
		e.writes++
		e.bufTouch(a[0].(Ptr), true)
		delete(e.pathAux, e.bufKey(a[0].(Ptr)))
		return nil
	}
	stubs["(*bytes.Buffer).Len"] = func(e *Exec, fr *Frame, fn *ssa.Function, a []Value) Value {
		r := e.tf.Int(0)
		for _, c := range e.bufGet(a[0].(Ptr)) {
			r = e.tf.Add(r, e.chunkLen(c))
		}
		return r
	}
	// the harness sink (a hash.Hash that records what it is fed)
	sinkWrite := func(e *Exec, fr *Frame, fn *ssa.Function, a []Value) Value {
		sp := a[0].(Ptr)
		key := e.sinkKey(sp)
		cur, _ := e.pathAux[key].([]chunk)
		cur = append([]chunk{}, cur...)
		n := e.tf.Int(0)
		switch p := a[1].(type) {
		case chunksV:
			cur = append(cur, p.cs...)
			for _, c := range p.cs {
				n = e.tf.Add(n, e.chunkLen(c))
			}
		case BytesV:
			cur = append(cur, chunk{t: p.S.Term(e.tf)})
			n = p.S.Len(e.tf)
		case SliceV:
			cs := make([]*Term, p.Len)
			for i := range cs {
				cs[i] = getPath(p.Arr.V, []int{p.Off + i}).(*Term)
			}
			cur = append(cur, chunk{t: StrV{Chars: cs, IsCh: true}.Term(e.tf)})
			n = e.tf.Int(int64(p.Len))
		default:
			e.unsupported("Sink.Write of %T", a[1])
		}
		e.writes++
		e.pathAux[key] = cur
		return TupleV{n, IfaceV{}}
	}
	stubs["(*"+repoMod+"/internal/verifrt.Sink).Write"] = sinkWrite
	intrinsics["StreamEq"] = func(e *Exec, fr *Frame, fn *ssa.Function, a []Value) Value {
		ca, _ := e.pathAux[e.sinkKey(a[0].(Ptr))].([]chunk)
		cb, _ := e.pathAux[e.sinkKey(a[1].(Ptr))].([]chunk)
		return e.streamEq(ca, cb)
	}
	intrinsics["StreamLen"] = func(e *Exec, fr *Frame, fn *ssa.Function, a []Value) Value {
		cs, _ := e.pathAux[e.sinkKey(a[0].(Ptr))].([]chunk)
		return e.tf.Int(int64(len(cs)))
	}
	intrinsics["MaybeNilIf"] = func(e *Exec, fr *Frame, fn *ssa.Function, a []Value) Value {
		c := a[0].(*Term)
		p := a[1].(Ptr)
		if p.Obj == nil || c.IsTrue() {
			return Ptr{}
		}
		if c.IsFalse() {
			return p
		}
		nc := c
		if p.NilCond != nil {
			nc = e.tf.Or(p.NilCond, c)
		}
		return Ptr{Obj: p.Obj, Path: p.Path, NilCond: nc}
	}
}
