//go:build verif

package nycttrips

import (
	vr "github.com/jamespfennell/gtfs/internal/verifrt"
	gtfsrt "github.com/jamespfennell/gtfs/proto"
)

func init() {
	vr.Register("Harness_C16_mtrain_involution", Harness_C16_mtrain_involution)
	vr.Register("Harness_C16_stale_unit", Harness_C16_stale_unit)
}

// Applying the M-train platform fix twice is the identity, for arbitrary
// route ids and stop ids of every length 0..5 (any characters).
func Harness_C16_mtrain_involution() {
	route := vr.OneOf("route", "M", "J")
	n := 0
	for k := 0; k < 5; k++ {
		if vr.Int("stop.len", 0, 5) > k {
			n = k + 1
		}
	}
	prefix := vr.OneOf("stop.prefix", "M11", "M16", "M18", "M19", "")
	sid := prefix + vr.Chars("stop.tail", n, "print")
	orig := sid
	tu := &gtfsrt.TripUpdate{Trip: &gtfsrt.TripDescriptor{RouteId: &route}, StopTimeUpdate: []*gtfsrt.TripUpdate_StopTimeUpdate{{StopId: &sid}, nil, {}}}
	fixMTrainPlatformsInBushwick(tu)
	once := tu.StopTimeUpdate[0].GetStopId()
	fixMTrainPlatformsInBushwick(tu)
	twice := tu.StopTimeUpdate[0].GetStopId()
	vr.Assert("C16.mtrain.involution", twice == orig)
	vr.Assert("C16.mtrain.length_kept", len(once) == len(orig))
}

// isStaleUnassignedTrip over arbitrary first-stop times and feed timestamps.
func Harness_C16_stale_unit() {
	assigned := vr.Bool("assigned")
	ts := vr.U64("timestamp")
	vr.Assume(ts < 1<<63)
	dep, arr := vr.I64("departure"), vr.I64("arrival")
	stu := &gtfsrt.TripUpdate_StopTimeUpdate{}
	if vr.Bool("has_departure") {
		stu.Departure = &gtfsrt.TripUpdate_StopTimeEvent{Time: vr.MaybeNil("departure.time.nil", &dep)}
	}
	if vr.Bool("has_arrival") {
		stu.Arrival = &gtfsrt.TripUpdate_StopTimeEvent{Time: vr.MaybeNil("arrival.time.nil", &arr)}
	}
	first := stu.GetDeparture().GetTime()
	if first == 0 {
		first = stu.GetArrival().GetTime()
	}
	stus := []*gtfsrt.TripUpdate_StopTimeUpdate{stu}
	if vr.Bool("second_stop") { // only the first stop counts
		later := vr.I64("second.departure")
		stus = append(stus, &gtfsrt.TripUpdate_StopTimeUpdate{Departure: &gtfsrt.TripUpdate_StopTimeEvent{Time: &later}})
	}
	got := isStaleUnassignedTrip(assigned, stus, ts)
	vr.Assert("C16.stale.rule", got == vr.And(!assigned, vr.Or(first == 0, first < int64(ts))))
	vr.Assert("C16.stale.empty", isStaleUnassignedTrip(assigned, nil, ts) == !assigned)
}
