//go:build verif

// Package verifh holds harnesses that use only the exported API.
package verifh

import (
	"time"

	"github.com/jamespfennell/gtfs"
	"github.com/jamespfennell/gtfs/extensions/nyctalerts"
	"github.com/jamespfennell/gtfs/extensions/nycttrips"
	vr "github.com/jamespfennell/gtfs/internal/verifrt"
	gtfsrt "github.com/jamespfennell/gtfs/proto"
	"google.golang.org/protobuf/proto"
)

func init() {
	vr.Register("Harness_C06_static_order", Harness_C06_static_order)
	vr.Register("Harness_C06_realtime_order", Harness_C06_realtime_order)
	vr.Register("Harness_C06_history_nyctalerts", Harness_C06_history_nyctalerts)
	vr.Register("Harness_C06_history_plain", Harness_C06_history_plain)
	vr.Register("Harness_C06_history_nycttrips", Harness_C06_history_nycttrips)
	vr.Register("Harness_C06_history_realtime_zone", Harness_C06_history_realtime_zone)
	vr.Register("Harness_C06_history_static", Harness_C06_history_static)
}

func hStaticFeed() []vr.File {
	a, b, c := vr.Str("service.a"), vr.Str("service.b"), vr.Str("service.c")
	vr.Assume(a != "" && b != "" && c != "" && a != b && a != c && b != c)
	sa, sb := vr.Str("shape.a"), vr.Str("shape.b")
	vr.Assume(sa != "" && sb != "" && sa != sb)
	return []vr.File{
		{Name: "agency.txt", Header: []string{"agency_id", "agency_name", "agency_url", "agency_timezone"}, Rows: [][]string{{"ag", "A", "u", "UTC"}}},
		{Name: "routes.txt", Header: []string{"route_id", "agency_id", "route_type"}, Rows: [][]string{{"r1", "ag", "1"}}},
		{Name: "stops.txt", Header: []string{"stop_id", "stop_name", "parent_station"}, Rows: [][]string{{"s1", "a", "s3"}, {"s2", "b", "s3"}, {"s3", "c", ""}, {"c1", "x", "c2"}, {"c2", "y", "c1"}}},
		{Name: "calendar.txt", Header: []string{"service_id", "monday", "tuesday", "wednesday", "thursday", "friday", "saturday", "sunday", "start_date", "end_date"},
			Rows: [][]string{{a, "1", "1", "1", "1", "1", "0", "0", "20240101", "20241231"}, {b, "0", "0", "0", "0", "0", "1", "1", "20240101", "20241231"}}},
		{Name: "calendar_dates.txt", Header: []string{"service_id", "date", "exception_type"}, Rows: [][]string{{c, "20240704", "1"}, {a, "20240705", "2"}}},
		{Name: "shapes.txt", Header: []string{"shape_id", "shape_pt_lat", "shape_pt_lon", "shape_pt_sequence"}, Rows: [][]string{{sa, "1", "2", "1"}, {sb, "3", "4", "1"}, {sa, "5", "6", "2"}}},
		{Name: "trips.txt", Header: []string{"route_id", "service_id", "trip_id", "shape_id"}, Rows: [][]string{{"r1", a, "t1", sa}, {"r1", b, "t2", sb}}},
		{Name: "stop_times.txt", Header: []string{"trip_id", "arrival_time", "departure_time", "stop_id", "stop_sequence"},
			Rows: [][]string{{"t1", "08:00:00", "08:00:00", "s1", "2"}, {"t2", "08:00:00", "08:00:00", "s2", "1"}, {"t1", "07:00:00", "07:00:00", "s2", "1"}}},
	}
}

// Static parse under every iteration order of every map the parser ranges
// over: content and order of every collection must not depend on it.
// (Natively the parse is repeated; Go randomises map iteration per loop.)
func Harness_C06_static_order() {
	files := hStaticFeed()
	base, err := gtfs.ParseStatic(vr.Archive(files), gtfs.ParseStaticOptions{})
	vr.Assert("C06.returns", err == nil && base != nil)
	if base == nil {
		return
	}
	vr.MapOrder("all")
	for i := 0; i < vr.Repeat(200); i++ {
		r, err := gtfs.ParseStatic(vr.Archive(files), gtfs.ParseStaticOptions{})
		if err != nil || r == nil {
			vr.Assert("C06.returns", false)
			return
		}
		vr.Assert("C06.order.services", vr.DeepEq(base.Services, r.Services))
		vr.Assert("C06.order.shapes", vr.DeepEq(base.Shapes, r.Shapes))
		vr.Assert("C06.order.trips", vr.DeepEq(base.Trips, r.Trips))
		vr.Assert("C06.order.stops", vr.DeepEq(base.Stops, r.Stops))
	}
	vr.MapOrder("")
}

func hStr(s string) *string { return &s }

func hRealtimeMsg() *gtfsrt.FeedMessage {
	v := "2.0"
	ra, rb := vr.Str("route.a"), vr.Str("route.b")
	vr.Assume(ra != "" && rb != "" && ra != rb)
	va, vb := vr.Str("vehicle.a"), vr.Str("vehicle.b")
	vr.Assume(va != "" && vb != "" && va != vb)
	ta, tb := vr.Str("trip.a"), vr.Str("trip.b")
	vr.Assume(ta != "" && tb != "" && ta != tb)
	sels := []*gtfsrt.EntitySelector{{Trip: &gtfsrt.TripDescriptor{RouteId: &ra}}, {Trip: &gtfsrt.TripDescriptor{RouteId: &rb}}}
	if vr.Param("ALERTDIR", 0) == 1 {
		// the first route again, now with a direction (after the direction-less mention)
		sels = append(sels, &gtfsrt.EntitySelector{Trip: &gtfsrt.TripDescriptor{RouteId: &ra, DirectionId: vr.P(uint32(0))}})
	}
	e3 := &gtfsrt.TripUpdate{Trip: &gtfsrt.TripDescriptor{TripId: &tb}}
	if vr.Param("DUPV", 0) == 1 {
		// a second trip claiming the first vehicle (not conflict-free, but a parse of it must still be deterministic)
		e3.Vehicle = &gtfsrt.VehicleDescriptor{Id: &va}
	}
	if vr.Param("SAMEKEY", 0) == 1 {
		// descriptors that differ only in whether a (zero) start time is present: distinct trips whose order must still be fixed
		tid, rid, midnight := "T", "R", "00:00:00"
		return &gtfsrt.FeedMessage{Header: &gtfsrt.FeedHeader{GtfsRealtimeVersion: &v}, Entity: []*gtfsrt.FeedEntity{
			{Id: hStr("k1"), TripUpdate: &gtfsrt.TripUpdate{Trip: &gtfsrt.TripDescriptor{TripId: &tid, RouteId: &rid, StartTime: &midnight}}},
			{Id: hStr("k2"), TripUpdate: &gtfsrt.TripUpdate{Trip: &gtfsrt.TripDescriptor{TripId: &tid, RouteId: &rid}}},
			{Id: hStr("k3"), TripUpdate: &gtfsrt.TripUpdate{Trip: &gtfsrt.TripDescriptor{TripId: &tid, RouteId: &rid, DirectionId: vr.P(uint32(0))}}},
		}}
	}
	return &gtfsrt.FeedMessage{Header: &gtfsrt.FeedHeader{GtfsRealtimeVersion: &v}, Entity: []*gtfsrt.FeedEntity{
		{Id: hStr("e1"), Vehicle: &gtfsrt.VehiclePosition{Vehicle: &gtfsrt.VehicleDescriptor{Id: &va}, Trip: &gtfsrt.TripDescriptor{TripId: &ta}}},
		{Id: hStr("e2"), Vehicle: &gtfsrt.VehiclePosition{Vehicle: &gtfsrt.VehicleDescriptor{Id: &vb}}},
		{Id: hStr("e3"), TripUpdate: e3},
		{Id: hStr("e4"), Alert: &gtfsrt.Alert{InformedEntity: sels}},
	}}
}

func Harness_C06_realtime_order() {
	msg := hRealtimeMsg()
	base, err := gtfs.ParseRealtime(vr.Marshal(msg), &gtfs.ParseRealtimeOptions{})
	vr.Assert("C06.returns", err == nil && base != nil)
	if base == nil {
		return
	}
	vr.MapOrder("all")
	for i := 0; i < vr.Repeat(200); i++ {
		r, err := gtfs.ParseRealtime(vr.Marshal(msg), &gtfs.ParseRealtimeOptions{})
		if err != nil || r == nil {
			vr.Assert("C06.returns", false)
			return
		}
		vr.Assert("C06.order.trips", vr.DeepEq(base.Trips, r.Trips))
		vr.Assert("C06.order.vehicles", vr.DeepEq(base.Vehicles, r.Vehicles))
		vr.Assert("C06.order.alert_entities", vr.DeepEq(base.Alerts, r.Alerts))
	}
	vr.MapOrder("")
}

func hElevatorMsg(tag string) *gtfsrt.FeedMessage {
	v := "2.0"
	station := vr.Chars(tag+".station", 3, "alnum")
	elev := vr.Chars(tag+".elevator", 1, "alnum")
	id1 := station + "N#EL" + elev
	id2 := station + "S#EL" + elev
	other := vr.Str(tag + ".other")
	return &gtfsrt.FeedMessage{Header: &gtfsrt.FeedHeader{GtfsRealtimeVersion: &v}, Entity: []*gtfsrt.FeedEntity{
		{Id: &id1, Alert: &gtfsrt.Alert{}}, {Id: &id2, Alert: &gtfsrt.Alert{}},
		{Id: hStr("lmm:alert:1"), Alert: &gtfsrt.Alert{InformedEntity: []*gtfsrt.EntitySelector{{StopId: &other}}}},
	}}
}

// Parse feed A then feed B with one options/extension object; B's result must
// equal the result of parsing B alone with a fresh object.
func Harness_C06_history_nyctalerts() {
	policy := []nyctalerts.ElevatorAlertsDeduplicationPolicy{nyctalerts.NoDeduplication, nyctalerts.DeduplicateInStation, nyctalerts.DeduplicateInComplex}[vr.Param("POLICY", 0)]
	mk := func() *gtfs.ParseRealtimeOptions {
		return &gtfs.ParseRealtimeOptions{Extension: nyctalerts.Extension(nyctalerts.ExtensionOpts{ElevatorAlertsDeduplicationPolicy: policy,
			ElevatorAlertsInformUsingStationIDs: vr.Bool("station_ids"), AddNyctMetadata: true})}
	}
	a, b := hElevatorMsg("a"), hElevatorMsg("b")
	shared := mk()
	fresh, errF := gtfs.ParseRealtime(vr.Marshal(b), mk()) // the reference comes first (see history_nycttrips)
	_, errA := gtfs.ParseRealtime(vr.Marshal(a), shared)
	rb, errB := gtfs.ParseRealtime(vr.Marshal(b), shared)
	vr.Assert("C06.returns", errA == nil && errB == nil && errF == nil)
	if rb == nil || fresh == nil {
		return
	}
	vr.Assert("C06.history.nyctalerts", vr.DeepEq(rb.Alerts, fresh.Alerts))
}

func Harness_C06_history_plain() {
	a, b := hRealtimeMsg(), hElevatorMsg("b")
	shared := &gtfs.ParseRealtimeOptions{}
	fresh, errF := gtfs.ParseRealtime(vr.Marshal(b), &gtfs.ParseRealtimeOptions{}) // the reference comes first
	_, errA := gtfs.ParseRealtime(vr.Marshal(a), shared)
	rb, errB := gtfs.ParseRealtime(vr.Marshal(b), shared)
	vr.Assert("C06.returns", errA == nil && errB == nil && errF == nil)
	if rb == nil || fresh == nil {
		return
	}
	vr.Assert("C06.history.plain", vr.And(vr.DeepEq(rb.Alerts, fresh.Alerts), vr.DeepEq(rb.Trips, fresh.Trips), vr.DeepEq(rb.Vehicles, fresh.Vehicles)))
}

// The same realtime message (a trip with start_date and start_time) parsed
// under one zone and then under another in the same process: the second
// result carries local midnight of the date in the second zone.
func Harness_C06_history_realtime_zone() {
	date := vr.OneOf("date", "20240101", "20240310", "20240704")
	names := []string{"UTC", "America/New_York", "Asia/Kolkata", "Pacific/Apia"}
	load := func(i int) *time.Location {
		l, err := time.LoadLocation(names[i])
		if err != nil {
			return time.UTC
		}
		return l
	}
	za := load(hConcretize(vr.Int("zone.a", 0, 3), 0, 3))
	zb := load(hConcretize(vr.Int("zone.b", 0, 3), 0, 3))
	ver, id, tid, st := "2.0", "e", vr.Str("trip.id"), "08:30:00"
	msg := &gtfsrt.FeedMessage{Header: &gtfsrt.FeedHeader{GtfsRealtimeVersion: &ver}, Entity: []*gtfsrt.FeedEntity{
		{Id: &id, TripUpdate: &gtfsrt.TripUpdate{Trip: &gtfsrt.TripDescriptor{TripId: &tid, StartDate: &date, StartTime: &st}}}}}
	_, errA := gtfs.ParseRealtime(vr.Marshal(msg), &gtfs.ParseRealtimeOptions{Timezone: za})
	rb, errB := gtfs.ParseRealtime(vr.Marshal(msg), &gtfs.ParseRealtimeOptions{Timezone: zb})
	vr.Assert("C06.returns", errA == nil && errB == nil && rb != nil)
	if rb == nil || len(rb.Trips) != 1 {
		vr.Assert("C06.history.realtime_zone", false)
		return
	}
	y, m, d := hAtoi(date[0:4]), hAtoi(date[4:6]), hAtoi(date[6:8])
	want := time.Date(y, time.Month(m), d, 0, 0, 0, 0, zb)
	got := rb.Trips[0].ID
	vr.Assert("C06.history.realtime_zone", got.HasStartDate && got.StartDate.Equal(want) && got.StartDate.Location() == zb)
}

func hDatedFeed(tz, date, service string) []vr.File {
	return []vr.File{
		{Name: "agency.txt", Header: []string{"agency_id", "agency_name", "agency_url", "agency_timezone"}, Rows: [][]string{{"ag", "A", "u", tz}}},
		{Name: "routes.txt", Header: []string{"route_id", "agency_id", "route_type"}, Rows: [][]string{{"r1", "ag", "1"}}},
		{Name: "stops.txt", Header: []string{"stop_id", "stop_name"}, Rows: [][]string{{"s1", "a"}}},
		{Name: "calendar.txt", Header: []string{"service_id", "monday", "tuesday", "wednesday", "thursday", "friday", "saturday", "sunday", "start_date", "end_date"},
			Rows: [][]string{{service, "1", "1", "1", "1", "1", "0", "0", date, date}}},
		{Name: "calendar_dates.txt", Header: []string{"service_id", "date", "exception_type"}, Rows: [][]string{{service, date, "2"}}},
		{Name: "trips.txt", Header: []string{"route_id", "service_id", "trip_id"}, Rows: [][]string{{"r1", service, "t1"}}},
		{Name: "stop_times.txt", Header: []string{"trip_id", "arrival_time", "departure_time", "stop_id", "stop_sequence"}, Rows: [][]string{{"t1", "08:00:00", "08:00:00", "s1", "1"}}},
	}
}

// Two static feeds parsed one after the other in one process: the second result
// must be what the second feed alone determines (same dates, same ids,
// another agency timezone), whatever was parsed before.
func Harness_C06_history_static() {
	date := vr.OneOf("date", "20240101", "20240310", "20240704")
	svc := vr.Str("service")
	vr.Assume(svc != "")
	zones := []string{"America/New_York", "America/Los_Angeles", "Asia/Tokyo"}
	za := zones[hConcretize(vr.Int("zone.a", 0, 2), 0, 2)]
	zb := zones[hConcretize(vr.Int("zone.b", 0, 2), 0, 2)]
	_, errA := gtfs.ParseStatic(vr.Archive(hDatedFeed(za, date, svc)), gtfs.ParseStaticOptions{})
	rb, errB := gtfs.ParseStatic(vr.Archive(hDatedFeed(zb, date, svc)), gtfs.ParseStaticOptions{})
	vr.Assert("C06.returns", errA == nil && errB == nil && rb != nil)
	if rb == nil || len(rb.Services) != 1 {
		vr.Assert("C06.history.static", false)
		return
	}
	loc, err := time.LoadLocation(zb)
	vr.Assume(err == nil)
	want := time.Date(hAtoi(date[0:4]), time.Month(hAtoi(date[4:6])), hAtoi(date[6:8]), 0, 0, 0, 0, loc)
	s := rb.Services[0]
	vr.Assert("C06.history.static", vr.And(vr.DeepEq(s.StartDate, want), vr.DeepEq(s.EndDate, want), len(s.RemovedDates) == 1, s.Id == svc))
	if len(s.RemovedDates) == 1 {
		vr.Assert("C06.history.static", vr.DeepEq(s.RemovedDates[0], want))
	}
}

// Feed A (an unassigned NYCT trip the stale filter drops, as first entity) then feed B (vehicle
// position first, then a trip update) with one options value and the nycttrips extension:
// B's result equals the result of parsing B with fresh options.
func Harness_C06_history_nycttrips() {
	mk := func() *gtfs.ParseRealtimeOptions {
		return &gtfs.ParseRealtimeOptions{Extension: nycttrips.Extension(nycttrips.ExtensionOpts{FilterStaleUnassignedTrips: true})}
	}
	ver, ts := "2.0", uint64(1000)
	tid, route, unassigned := "012345_A..N", "A", false
	td := &gtfsrt.TripDescriptor{TripId: &tid, RouteId: &route}
	proto.SetExtension(td, gtfsrt.E_NyctTripDescriptor, &gtfsrt.NyctTripDescriptor{IsAssigned: &unassigned})
	a := &gtfsrt.FeedMessage{Header: &gtfsrt.FeedHeader{GtfsRealtimeVersion: &ver, Timestamp: &ts}, Entity: []*gtfsrt.FeedEntity{
		// at least as many entities as feed B, every one of them dropped
		{Id: hStr("a1"), TripUpdate: &gtfsrt.TripUpdate{Trip: td}}, {Id: hStr("a2"), TripUpdate: &gtfsrt.TripUpdate{Trip: td}},
		{Id: hStr("a3"), TripUpdate: &gtfsrt.TripUpdate{Trip: td}}, {Id: hStr("a4"), TripUpdate: &gtfsrt.TripUpdate{Trip: td}},
		{Id: hStr("a5"), TripUpdate: &gtfsrt.TripUpdate{Trip: td}}}}
	b := hRealtimeMsg()
	shared := mk()
	// the reference parse of B comes first: package-level state left behind by A would spoil a later one as well
	fresh, errF := gtfs.ParseRealtime(vr.Marshal(b), mk())
	_, errA := gtfs.ParseRealtime(vr.Marshal(a), shared)
	rb, errB := gtfs.ParseRealtime(vr.Marshal(b), shared)
	vr.Assert("C06.returns", errA == nil && errB == nil && errF == nil)
	if rb == nil || fresh == nil {
		return
	}
	vr.Assert("C06.history.nycttrips", vr.And(vr.DeepEq(rb.Alerts, fresh.Alerts), vr.DeepEq(rb.Trips, fresh.Trips), vr.DeepEq(rb.Vehicles, fresh.Vehicles)))
}
