//go:build verif

package gtfs

import (
	vr "github.com/jamespfennell/gtfs/internal/verifrt"
)

func init() {
	vr.Register("Harness_C03_stops", Harness_C03_stops)
	vr.Register("Harness_C03_rings", Harness_C03_rings)
	vr.Register("Harness_C03_routes", Harness_C03_routes)
	vr.Register("Harness_C03_trips", Harness_C03_trips)
	vr.Register("Harness_C03_transfers", Harness_C03_transfers)
	vr.Register("Harness_C03_stoptimes", Harness_C03_stoptimes)
}

// stops.txt with R rows whose stop_id and parent_station cells are arbitrary
// strings (blank, duplicate, dangling, self- and mutually-referencing included).
func Harness_C03_stops() {
	R := vr.Param("R", 2)
	hdr := []string{"stop_id", "stop_name", "parent_station"}
	types := vr.Param("TYPES", 0) == 1
	if types {
		hdr = append(hdr, "location_type")
	}
	var rows [][]string
	for i := 0; i < R; i++ {
		row := []string{vr.Str(vr.T("stops.r", i, ".id")), "n", vr.Str(vr.T("stops.r", i, ".parent"))}
		if types {
			row = append(row, vr.OneOf(vr.T("stops.r", i, ".type"), "", "1", "2"))
		}
		rows = append(rows, row)
	}
	files := hBase()
	files["stops.txt"] = vr.File{Name: "stops.txt", Header: hdr, Rows: rows}
	r := hParse(files, ParseStaticOptions{InheritWheelchairBoarding: vr.Bool("inherit")})
	if r == nil {
		return
	}
	// accepted rows, in order: those with a non-blank id
	var acc []int
	for i := 0; i < R; i++ {
		if rows[i][0] != "" {
			acc = append(acc, i)
		}
	}
	vr.Assert("C03.stops.count", len(r.Stops) == len(acc))
	if len(r.Stops) != len(acc) {
		return
	}
	for k, i := range acc {
		s := &r.Stops[k]
		vr.Assert("C03.stops.row", s.Id == rows[i][0])
		parent := rows[i][2]
		if s.Parent != nil {
			// the very element of the result's Stops whose id is the one named in this row
			found := false
			for j := range r.Stops {
				if s.Parent == &r.Stops[j] {
					found = true
					vr.Assert("C03.parent.row", vr.And(parent != "", r.Stops[j].Id == parent))
				}
			}
			vr.Assert("C03.parent.identity", found)
		}
	}
	// forest: walking to the root terminates (the engine reports a repeating loop state as a hang)
	for k := range r.Stops {
		root := r.Stops[k].Root()
		vr.Assert("C03.forest.terminates", root != nil && root.Parent == nil)
	}
}

func Harness_C03_routes() {
	R := vr.Param("R", 2)
	A := vr.Param("A", 2)
	var ag [][]string
	for i := 0; i < A; i++ {
		ag = append(ag, []string{vr.Str(vr.T("agency.r", i, ".id")), "n", "u", "UTC"})
	}
	hdr := []string{"route_id", "agency_id", "route_type"}
	var rows [][]string
	for i := 0; i < R; i++ {
		rows = append(rows, []string{vr.Str(vr.T("routes.r", i, ".id")), vr.Str(vr.T("routes.r", i, ".agency")), "3"})
	}
	files := hBase()
	files["agency.txt"] = hAgencyFile(ag...)
	files["routes.txt"] = vr.File{Name: "routes.txt", Header: hdr, Rows: rows}
	r := hParse(files, ParseStaticOptions{})
	if r == nil {
		return
	}
	for k := range r.Routes {
		rt := &r.Routes[k]
		vr.Assert("C03.route_agency.required", rt.Agency != nil)
		if rt.Agency == nil {
			continue
		}
		found := false
		for j := range r.Agencies {
			if rt.Agency == &r.Agencies[j] {
				found = true
			}
		}
		vr.Assert("C03.route_agency.identity", found)
		// the referring row: some row with this route id whose agency cell names this agency (or is blank with a single agency)
		var any []bool
		for i := 0; i < R; i++ {
			any = append(any, vr.And(rows[i][0] == rt.Id, vr.Or(rows[i][1] == rt.Agency.Id, vr.And(rows[i][1] == "", len(r.Agencies) == 1))))
		}
		vr.Assert("C03.route_agency.row", vr.Or(any...))
	}
}

func Harness_C03_trips() {
	R := vr.Param("R", 2)
	files := hBase()
	lite := vr.Param("LITE", 0) == 1 // concrete routes/shapes, so that two trip rows stay affordable
	hID := func(tag, concrete string) string {
		if lite {
			return concrete
		}
		return vr.Str(tag)
	}
	files["routes.txt"] = vr.File{Name: "routes.txt", Header: []string{"route_id", "agency_id", "route_type"},
		Rows: [][]string{{hID("routes.r0.id", "r1"), "ag", "1"}, {hID("routes.r1.id", "r2"), "ag", "2"}}}
	files["shapes.txt"] = vr.File{Name: "shapes.txt", Header: []string{"shape_id", "shape_pt_lat", "shape_pt_lon", "shape_pt_sequence"},
		Rows: [][]string{{hID("shapes.r0.id", "sh1"), "1.5", "2.5", "1"}}}
	hdr := []string{"route_id", "service_id", "trip_id", "shape_id"}
	var rows [][]string
	for i := 0; i < R; i++ {
		shape := "sh1"
		if !lite {
			shape = vr.Str(vr.T("trips.r", i, ".shape"))
		}
		rows = append(rows, []string{vr.Str(vr.T("trips.r", i, ".route")), vr.OneOf(vr.T("trips.r", i, ".service"), "sv1", "nope", ""),
			vr.Str(vr.T("trips.r", i, ".id")), shape})
	}
	files["trips.txt"] = vr.File{Name: "trips.txt", Header: hdr, Rows: rows}
	r := hParse(files, ParseStaticOptions{})
	if r == nil {
		return
	}
	for k := range r.Trips {
		t := &r.Trips[k]
		vr.Assert("C03.trip.required", t.Route != nil && t.Service != nil)
		if t.Route == nil || t.Service == nil {
			continue
		}
		fr, fs, fsh := false, false, t.Shape == nil
		for j := range r.Routes {
			fr = fr || t.Route == &r.Routes[j]
		}
		for j := range r.Services {
			fs = fs || t.Service == &r.Services[j]
		}
		for j := range r.Shapes {
			fsh = fsh || t.Shape == &r.Shapes[j]
		}
		vr.Assert("C03.trip.identity", fr && fs && fsh)
		var any []bool
		for i := 0; i < R; i++ {
			shapeOK := vr.Or(t.Shape == nil, rows[i][3] == t.GetShapeID())
			any = append(any, vr.And(rows[i][2] == t.ID, rows[i][0] == t.Route.Id, rows[i][1] == t.Service.Id, shapeOK))
		}
		vr.Assert("C03.trip.row", vr.Or(any...))
	}
}

func (t *ScheduledTrip) GetShapeID() string {
	if t.Shape == nil {
		return ""
	}
	return t.Shape.ID
}

func Harness_C03_transfers() {
	R := vr.Param("R", 2)
	files := hBase()
	files["stops.txt"] = vr.File{Name: "stops.txt", Header: []string{"stop_id", "stop_name"},
		Rows: [][]string{{vr.Str("stops.r0.id"), "a"}, {vr.Str("stops.r1.id"), "b"}, {vr.Str("stops.r2.id"), "c"}}}
	var rows [][]string
	for i := 0; i < R; i++ {
		rows = append(rows, []string{vr.Str(vr.T("transfers.r", i, ".from")), vr.Str(vr.T("transfers.r", i, ".to")), "2"})
	}
	files["transfers.txt"] = vr.File{Name: "transfers.txt", Header: []string{"from_stop_id", "to_stop_id", "transfer_type"}, Rows: rows}
	r := hParse(files, ParseStaticOptions{})
	if r == nil {
		return
	}
	for k := range r.Transfers {
		tr := &r.Transfers[k]
		vr.Assert("C03.transfer.required", tr.From != nil && tr.To != nil)
		if tr.From == nil || tr.To == nil {
			continue
		}
		ff, ft := false, false
		for j := range r.Stops {
			ff = ff || tr.From == &r.Stops[j]
			ft = ft || tr.To == &r.Stops[j]
		}
		vr.Assert("C03.transfer.identity", ff && ft)
		var any []bool
		for i := 0; i < R; i++ {
			any = append(any, vr.And(rows[i][0] == tr.From.Id, rows[i][1] == tr.To.Id))
		}
		vr.Assert("C03.transfer.row", vr.Or(any...))
	}
}

// stop_times.txt rows with arbitrary trip and stop references over two known
// trips and two known stops (dangling and blank references included; unknown
// trips before, between and after known ones).
func Harness_C03_stoptimes() {
	R := vr.Param("R", 2)
	files := hBase()
	files["trips.txt"] = vr.File{Name: "trips.txt", Header: []string{"route_id", "service_id", "trip_id"}, Rows: [][]string{{"r1", "sv1", "t1"}, {"r1", "sv1", "t2"}}}
	var st [][]string
	for i := 0; i < R; i++ {
		st = append(st, []string{vr.Str(vr.T("st.r", i, ".trip")), "08:00:00", "08:00:00", vr.Str(vr.T("st.r", i, ".stop")), vr.T(i + 1)})
	}
	files["stop_times.txt"] = vr.File{Name: "stop_times.txt", Header: []string{"trip_id", "arrival_time", "departure_time", "stop_id", "stop_sequence"}, Rows: st}
	r := hParse(files, ParseStaticOptions{})
	if r == nil {
		return
	}
	total := 0
	for k := range r.Trips {
		t := &r.Trips[k]
		for q := range t.StopTimes {
			total++
			stt := &t.StopTimes[q]
			vr.Assert("C03.stoptime.required", stt.Stop != nil)
			if stt.Stop == nil {
				continue
			}
			fst := false
			for j := range r.Stops {
				fst = fst || stt.Stop == &r.Stops[j]
			}
			vr.Assert("C03.stoptime.identity", fst)
			vr.Assert("C03.stoptime.trip", stt.Trip == nil || stt.Trip == t)
			var anyRow []bool
			for i := range st {
				anyRow = append(anyRow, vr.And(st[i][0] == t.ID, st[i][3] == stt.Stop.Id, st[i][4] == vr.T(stt.StopSequence)))
			}
			vr.Assert("C03.stoptime.row", vr.Or(anyRow...))
		}
	}
	// exactly the rows naming a known trip and a known stop
	want := 0
	for i := range st {
		if (st[i][0] == "t1" || st[i][0] == "t2") && (st[i][3] == "s1" || st[i][3] == "s2") {
			want++
		}
	}
	vr.Assert("C03.stoptime.count", total == want)
}

// N stops with concrete ids; each names as its parent nobody, the next stop or
// the first stop: every chain and every ring of up to N stops (rings of every
// length 1..N close through "first"). Walking to the root terminates from
// every stop, and each parent is the stop its row names.
func Harness_C03_rings() {
	N := vr.Param("N", 6)
	ids := []string{"s1", "s2", "s3", "s4", "s5", "s6", "s7", "s8"}[:N]
	var rows [][]string
	var parent []string
	for i := 0; i < N; i++ {
		p := ""
		switch hConcretize(vr.Int(vr.T("stop", i, ".parent"), 0, 2), 0, 2) {
		case 1:
			p = ids[(i+1)%N]
		case 2:
			p = ids[0]
		}
		parent = append(parent, p)
		rows = append(rows, []string{ids[i], "n", p})
	}
	files := hBase()
	files["stops.txt"] = vr.File{Name: "stops.txt", Header: []string{"stop_id", "stop_name", "parent_station"}, Rows: rows}
	r := hParse(files, ParseStaticOptions{})
	if r == nil {
		return
	}
	vr.Assert("C03.rings.count", len(r.Stops) == N)
	if len(r.Stops) != N {
		return
	}
	for i := range r.Stops {
		root := r.Stops[i].Root() // must return
		vr.Assert("C03.forest.root", root != nil && root.Parent == nil)
		if r.Stops[i].Parent != nil {
			vr.Assert("C03.parent.row", r.Stops[i].Parent.Id == parent[i])
		}
	}
}
